import RodbusModel.Model.Lifecycle
/-
  Specification side of C13: the legal-path automaton over the observed listener states, written
  independently of the task model.
-/
namespace Rodbus.Spec.Life
open Rodbus.Life

/-- which state may directly follow which (C13's statement, spelled out) -/
def legalNext : St → St → Bool
  | .disabled, .connecting => true
  | .disabled, .shutdown => true
  | .connecting, .connected => true
  | .connecting, .waitFail _ => true
  | .connecting, .disabled => true
  | .connecting, .shutdown => true
  | .connected, .waitDisc _ => true
  | .connected, .disabled => true
  | .connected, .shutdown => true
  | .waitFail _, .connecting => true
  | .waitFail _, .disabled => true
  | .waitFail _, .shutdown => true
  | .waitDisc _, .connecting => true
  | .waitDisc _, .disabled => true
  | .waitDisc _, .shutdown => true
  | _, _ => false

def legalPath : List St → Bool
  | [] => true
  | [_] => true
  | a :: b :: rest => legalNext a b && legalPath (b :: rest)

def states (log : List Ev) : List St :=
  log.filterMap fun e => match e with | .gate s => some s | _ => none

/-- first state is Disabled, the path is legal, Shutdown at most once and last -/
def legalLog (log : List Ev) : Bool :=
  let ss := states log
  (ss.head? == some .disabled || ss.isEmpty) && legalPath ss &&
  (ss.count .shutdown ≤ 1) && (ss.all (· ≠ .shutdown) || ss.getLast? == some .shutdown)

def verdict (log : List Ev) : String := if legalLog log then "legal" else "ILLEGAL"

end Rodbus.Spec.Life
