import RodbusModel.Props.C05Cancel
import RodbusModel.Props.C01Write
import RodbusModel.Props.C02
import RodbusModel.Props.C02Session
/- axiom audit for C02: every line must report a subset of {propext, Classical.choice, Quot.sound} -/
#print axioms Rodbus.C02.calls_justified
#print axioms Rodbus.C02.decoded_request_in_limits
#print axioms Rodbus.C02.decoded_request_fits_u16
#print axioms Rodbus.C02.not_a_request_iff
#print axioms Rodbus.C02.write_once
#print axioms Rodbus.C02.write_once_broadcast
#print axioms Rodbus.C02.write_call_shape
#print axioms Rodbus.C02.write_items
#print axioms Rodbus.C02.write_multiple_decoding
#print axioms Rodbus.C02.reads_ascending_prefix
#print axioms Rodbus.C02.read_addresses_distinct
#print axioms Rodbus.C02.readCall_injective
#print axioms Rodbus.C02.invalid_no_effect
#print axioms Rodbus.C02.reads_no_state_change
#print axioms Rodbus.C02.reads_no_state_change_lookup
/- session lift (Props/C02Session.lean) -/
#print axioms Rodbus.C02.calls_justified'
#print axioms Rodbus.C02.runFrames_calls_justified
#print axioms Rodbus.C02.events_calls_justified
#print axioms Rodbus.C02.session_calls_justified
#print axioms Rodbus.C02.stream_calls_justified
#print axioms Rodbus.C02.framing_error_ends_session
#print axioms Rodbus.C02.framing_error_first
#print axioms Rodbus.C02.session_framing_error
#print axioms Rodbus.C02.session_ends_badFrame_iff
#print axioms Rodbus.C02.cutScript_not_badFrame
#print axioms Rodbus.C02.session_invalid_no_effect
#print axioms Rodbus.C02.corrupted_request_no_effect
#print axioms Rodbus.C01W.write_failure_calls_justified
#print axioms Rodbus.C01W.write_failure_prefix
#print axioms Rodbus.Cancel.session_cancel_safe
#print axioms Rodbus.Cancel.cancel_safe_mbap
#print axioms Rodbus.Cancel.cancel_safe_rtu
