import RodbusModel.Lemmas.ClientStokRun
/-
  The joint invariant of the parser state AND the read buffer of the client's reader
  (`State.pst`, `State.rb`) along every script; the analogue of Lemmas/ClientStokRun (parser state
  alone) for predicates that also talk about the `ReadBuffer` (indices within the 260-byte array,
  room for the next `read_some`).

  `State.rd s = (s.pst, s.rb)` is written in three places of Model/Client.lean: by the reader
  (`pollReader`), by the discard loop inside `startRequest`, and by `startPhase` when a session
  starts (`reader.reset()`, a fresh `ReadBuffer`).  `RdInv F P` says that `P` holds for the fresh
  reader and is kept by the reader and by the discard loop; then `P` holds for `rd` after every
  script (`runState_rd`, `reachable_rd`).
-/
namespace Rodbus.Client

section
variable {σ : Type}

/-- the reader of the task: parser state and read buffer -/
def State.rd (s : State σ) : σ × RB := (s.pst, s.rb)

/-- `P` holds for the fresh reader and is kept by the two loops that run the parser -/
structure RdInv (F : Framing σ) (P : σ × RB → Prop) : Prop where
  init : P (F.init, RB.empty)
  reader : ∀ fuel st rb rx, P (st, rb) →
    P ((readerPoll F fuel st rb rx).2.1, (readerPoll F fuel st rb rx).2.2.1)
  discard : ∀ fuel st rb, P (st, rb) →
    P ((discardBuffered F fuel st rb).2.1, (discardBuffered F fuel st rb).2.2)

/-! ### updaters that do not touch the reader -/

@[simp] theorem rd_emit (s : State σ) (e : LogEntry) : (emit s e).rd = s.rd := rfl

@[simp] theorem rd_complete (s : State σ) (r : Req) (res : Res) : (complete s r res).rd = s.rd :=
  rfl

@[simp] theorem rd_endPhase (s : State σ) (k : EndKind) : (endPhase s k).rd = s.rd := rfl

@[simp] theorem rd_accept (s : State σ) (rid : Rid) : (accept s rid).rd = s.rd := rfl

@[simp] theorem rd_enqueue (s : State σ) (c : Cmd) : (enqueue s c).rd = s.rd := rfl

@[simp] theorem rd_applySetting (s : State σ) (c : Cmd) : (applySetting s c).rd = s.rd := by
  cases c <;> rfl

@[simp] theorem rd_flip (s : State σ) : (flip s).2.rd = s.rd := by
  unfold flip; cases s.coins <;> rfl

@[simp] theorem rd_setMock (s : State σ) (m : Nat) (k : Mock) : (setMock s m k).rd = s.rd := rfl

@[simp] theorem rd_afterRequest (s : State σ) (m : Nat) (res : Res) :
    (afterRequest s m res).rd = s.rd := by
  unfold afterRequest
  split
  · rfl
  · split
    · split
      · rfl
      · split <;> rfl
    · rfl

@[simp] theorem rd_finish (s : State σ) (m : Nat) (r : Req) (res : Res) :
    (finish s m r res).rd = s.rd := by
  unfold finish; rw [rd_afterRequest, rd_complete]

@[simp] theorem rd_idleReader (s : State σ) (r : ReadRes) : (idleReader s r).rd = s.rd := by
  unfold idleReader
  split
  · split <;> rfl
  · rfl

@[simp] theorem rd_inflightReader (s : State σ) (m : Nat) (q : Req) (tx : Nat) (r : ReadRes) :
    (inflightReader s m q tx r).rd = s.rd := by
  unfold inflightReader
  split
  · split
    · exact rd_finish _ _ _ _
    · rfl
  · exact rd_finish _ _ _ _
  · rfl

@[simp] theorem rd_waitCmd (s : State σ) (c : Cmd) : (waitCmd s c).rd = s.rd := by
  unfold waitCmd
  split
  · rfl
  · rfl
  · exact rd_applySetting _ _

@[simp] theorem rd_failCmd (s : State σ) (c : Cmd) : (failCmd s c).rd = s.rd := by
  unfold failCmd
  split
  · rfl
  · rfl
  · simp only []
    split
    · exact rd_applySetting _ _
    · rw [rd_endPhase]; exact rd_applySetting _ _

theorem rd_tickWait (s t : State σ) (h : tickWait s = some t) : t.rd = s.rd := by
  unfold tickWait at h
  split at h
  · cases h; rfl
  · split at h
    · cases h; exact rd_waitCmd _ _
    · split at h
      · cases h; rfl
      · cases h

theorem rd_tickFail (s t : State σ) (dl : Nat) (b : Bool) (h : tickFail s dl b = some t) :
    t.rd = s.rd := by
  unfold tickFail at h
  simp only [] at h
  split at h
  · split at h
    · split at h
      · cases h; rw [rd_endPhase]; exact rd_flip s
      · cases h; exact rd_flip s
    · cases h; rfl
  · split at h
    · cases h; exact rd_failCmd _ _
    · split at h
      · cases h; rfl
      · split at h
        · cases h; rfl
        · cases h

@[simp] theorem rd_moveClock (s : State σ) (target : Nat) : (moveClock s target).rd = s.rd := rfl

@[simp] theorem rd_completeAll (s : State σ) (res : Res) (rs : List Req) :
    (completeAll s res rs).rd = s.rd := by
  induction rs generalizing s with
  | nil => rfl
  | cons r rs ih => unfold completeAll; rw [ih]; rfl

@[simp] theorem rd_abort (s : State σ) : (abort s).rd = s.rd := by
  unfold abort
  split
  · rfl
  · exact rd_completeAll _ _ _

@[simp] theorem rd_submit (s : State σ) (op : SubmitOp) (r : Req) : (submit s op r).rd = s.rd := by
  unfold submit
  split
  · rfl
  · split <;> rfl
  · simp only []
    split
    · split
      · rfl
      · split <;> rfl
    · split <;> rfl

@[simp] theorem rd_trySetting (s : State σ) (op : CmdOp) (c : Cmd) :
    (trySetting s op c).rd = s.rd := by
  unfold trySetting; split <;> rfl

@[simp] theorem rd_addPhase (s : State σ) (p : Phase) : (addPhase s p).rd = s.rd := by
  unfold addPhase; split <;> rfl

@[simp] theorem rd_pushRx (s : State σ) (x : Rx) : (pushRx s x).rd = s.rd := by
  unfold pushRx; split <;> rfl

@[simp] theorem rd_applyStep (s : State σ) (st : Step) : (applyStep s st).rd = s.rd := by
  cases st with
  | newSession => simp only [applyStep]; rw [rd_addPhase]; rfl
  | waitEnabled => exact rd_addPhase _ _
  | failFor ms => exact rd_addPhase _ _
  | enable h => simp only [applyStep]; split <;> simp
  | disable h => simp only [applyStep]; split <;> simp
  | setDecode d => simp only [applyStep]; split <;> simp
  | shutdown h => simp only [applyStep]; split <;> simp
  | cloneHandle => rfl
  | dropHandle i => rfl
  | submit op h r => simp only [applyStep]; split <;> simp
  | rx x => exact rd_pushRx _ _
  | failWrite => simp only [applyStep]; split <;> rfl
  | advance ms => rfl
  | abort => exact rd_abort _

/-! ### the three writers of the reader state -/

variable {F : Framing σ} {P : σ × RB → Prop}

theorem pollReader_rd (hP : RdInv F P) (s : State σ) (m : Nat) (h : P s.rd) :
    P (pollReader F s m).2.rd :=
  hP.reader (readerFuel (getMock s m).rx) s.pst s.rb (getMock s m).rx h

theorem startRequest_rd (hP : RdInv F P) (s : State σ) (m : Nat) (r : Req) (h : P s.rd) :
    P (startRequest F s m r).rd := by
  have hd := hP.discard (discardFuel s.rb) s.pst s.rb h
  unfold startRequest
  simp only []
  split
  · rw [rd_finish]; exact h
  · split
    · rename_i res st' rb' hdd
      rw [rd_finish]
      have hdd' : discardBuffered F (discardFuel s.rb) s.pst s.rb = (some res, st', rb') := hdd
      rw [hdd'] at hd; exact hd
    · rename_i st' rb' hdd
      have hdd' : discardBuffered F (discardFuel s.rb) s.pst s.rb = (none, st', rb') := hdd
      rw [hdd'] at hd
      split
      · rw [rd_finish]; exact hd
      · generalize isLatest _ m = b
        cases b <;> exact hd

theorem startPhase_rd (hP : RdInv F P) (s t : State σ) (h : P s.rd)
    (ht : startPhase F s = some t) : P t.rd := by
  unfold startPhase at ht
  split at ht
  · cases ht
  · cases ht; exact hP.init
  · cases ht; exact h
  · cases ht; exact h

/-! ### the task -/

theorem runCmd_rd (hP : RdInv F P) (s : State σ) (m : Nat) (c : Cmd) (h : P s.rd) :
    P (runCmd F s m c).rd := by
  unfold runCmd
  split
  · exact startRequest_rd hP s m _ h
  · exact h
  · simp only []
    split
    · rw [rd_applySetting]; exact h
    · rw [rd_endPhase, rd_applySetting]; exact h

theorem sessionRecv_rd (hP : RdInv F P) (s t : State σ) (m : Nat) (h : P s.rd)
    (ht : sessionRecv F s m = some t) : P t.rd := by
  unfold sessionRecv at ht
  split at ht
  · cases ht; exact runCmd_rd hP _ m _ h
  · split at ht
    · cases ht; exact h
    · cases ht

theorem tickIdle_rd (hP : RdInv F P) (s t : State σ) (m : Nat) (h : P s.rd)
    (ht : tickIdle F s m = some t) : P t.rd := by
  have hr := pollReader_rd hP s m h
  unfold tickIdle at ht
  generalize pollReader F s m = pr at hr ht
  obtain ⟨r, s'⟩ := pr
  simp only [] at hr ht
  split at ht
  · split at ht
    · rename_i t' hs
      cases ht
      exact sessionRecv_rd hP s' _ m hr hs
    · split at ht
      · cases ht; exact hr
      · cases ht
  · split at ht
    · split at ht
      · cases ht; rw [rd_idleReader]; exact hr
      · exact sessionRecv_rd hP _ _ m (by rw [rd_flip]; exact h) ht
    · cases ht; rw [rd_idleReader]; exact hr

theorem tickInflight_rd (hP : RdInv F P) (s t : State σ) (m : Nat) (q : Req) (tx dl : Nat)
    (h : P s.rd) (ht : tickInflight F s m q tx dl = some t) : P t.rd := by
  have hr := pollReader_rd hP s m h
  unfold tickInflight at ht
  generalize pollReader F s m = pr at hr ht
  obtain ⟨r, s'⟩ := pr
  simp only [] at hr ht
  split at ht
  · split at ht
    · cases ht; rw [rd_finish]; exact hr
    · split at ht
      · cases ht; exact hr
      · cases ht
  · split at ht
    · split at ht
      · cases ht; rw [rd_finish, rd_flip]; exact h
      · cases ht; rw [rd_inflightReader]; exact hr
    · cases ht; rw [rd_inflightReader]; exact hr

theorem tick_rd (hP : RdInv F P) (s t : State σ) (h : P s.rd) (ht : tick F s = some t) :
    P t.rd := by
  unfold tick at ht
  split at ht
  · cases ht
  · split at ht
    · exact startPhase_rd hP s t h ht
    · exact tickIdle_rd hP s t _ h ht
    · exact tickInflight_rd hP s t _ _ _ _ h ht
    · rw [rd_tickWait s t ht]; exact h
    · rw [rd_tickFail s t _ _ ht]; exact h

theorem settle_rd (hP : RdInv F P) (fuel : Nat) (s : State σ) (h : P s.rd) :
    P (settle F fuel s).rd := by
  induction fuel generalizing s with
  | zero => exact h
  | succ n ih =>
    unfold settle
    split
    · split
      · exact h
      · exact ih _ h
    · rename_i s' ht
      exact ih s' (tick_rd hP s s' h ht)

theorem settled_rd (hP : RdInv F P) (s : State σ) (h : P s.rd) : P (settled F s).rd :=
  settle_rd hP _ s h

theorem advance_rd (hP : RdInv F P) (fuel target : Nat) (s : State σ) (h : P s.rd) :
    P (advance F fuel target s).rd := by
  induction fuel generalizing s with
  | zero => exact h
  | succ n ih =>
    unfold advance
    split
    · split
      · exact ih _ (settled_rd hP _ h)
      · exact h
    · exact h

theorem stepState_rd (hP : RdInv F P) (s : State σ) (st : Step) (h : P s.rd) :
    P (stepState F s st).rd := by
  unfold stepState
  split
  · exact advance_rd hP _ _ s h
  · exact settled_rd hP _ (by rw [rd_applyStep]; exact h)

/-- a predicate that the writers of `pst` keep holds along every script -/
theorem runState_rd (hP : RdInv F P) (s : State σ) (steps : List Step) (h : P s.rd) :
    P (runState F s steps).rd := by
  induction steps generalizing s with
  | nil => exact h
  | cons st rest ih => exact ih _ (stepState_rd hP s st h)

/-- ... in particular from the initial state -/
theorem reachable_rd (hP : RdInv F P) (cap maxTo : Nat) (d : Decode) (coins : List Bool)
    (steps : List Step) : P (runState F (State.init F cap maxTo d coins) steps).rd :=
  runState_rd hP _ steps hP.init

end


end Rodbus.Client
