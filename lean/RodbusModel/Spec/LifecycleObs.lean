import RodbusModel.Model.Lifecycle
/-
  Specification side of C13 / C14 for what the `life` suite observes beyond the state path,
  written over the event log alone (no task model):

  * `connOk`: the connection of every announced `Connected` is seen closed by its peer BEFORE the
    next state is announced (`closed` directly in front of the next gate event), and `closed` is
    reported nowhere else;
  * `conforms`: the delays carried by the announced wait states follow the doubling discipline:
    `WaitAfterFailedConnect` carries `min(min · 2^k, max)`, `k` the number of failed attempts since
    the last `Connected` (or since the start); `WaitAfterDisconnect` carries `min`;
  * `afterShutdownOk`: once `Shutdown` has been announced nothing is announced or observed any
    more (no state, no idle period, no close), and every completion is `shutdown`.
-/
namespace Rodbus.Spec.LifeObs
open Rodbus.Life

/-- connection automaton over the log: `0` no open connection, `1` the connection announced last
    is open, `2` its close has just been reported (a state announcement must follow) -/
def connStep : Nat → Ev → Option Nat
  | 0, .gate .connected => some 1
  | 0, .gate _ => some 0
  | 0, .closed => none
  | 1, .gate _ => none            -- a state is announced while the connection is still open
  | 1, .closed => some 2
  | 2, .gate .connected => none
  | 2, .gate _ => some 0
  | 2, _ => none
  | n, _ => some n

def connRun : Nat → List Ev → Option Nat
  | n, [] => some n
  | n, e :: rest => match connStep n e with
    | none => none
    | some n' => connRun n' rest

/-- every announced connection is closed before the next state is announced -/
def connOk (log : List Ev) : Bool :=
  match connRun 0 log with
  | some 0 | some 1 => true
  | _ => false

/-- the delay after the `(k+1)`-th consecutive failed attempt -/
def delay (mn mx k : Nat) : Nat := Nat.min (mn * 2 ^ k) mx

/-- the failure counter after an announced state -/
def count (k : Nat) : St → Nat
  | .connected => 0
  | .waitFail _ => k + 1
  | _ => k

/-- what an announced state must carry when `k` attempts have failed since the last `Connected` -/
def stOk (mn mx k : Nat) : St → Bool
  | .waitFail d => d == delay mn mx k
  | .waitDisc d => d == mn
  | _ => true

/-- check of an announced sequence alone; the counter is reset only at `Connected` -/
def conforms (mn mx : Nat) : Nat → List St → Bool
  | _, [] => true
  | k, st :: rest => stOk mn mx k st && conforms mn mx (count k st) rest

def counter : Nat → List St → Nat
  | k, [] => k
  | k, st :: rest => counter (count k st) rest

/-- events that may follow the announcement of `Shutdown` -/
def quiet : Ev → Bool
  | .gate _ | .idle | .closed => false
  | .done _ r => r == "shutdown"
  | _ => true

def afterShutdownOk : List Ev → Bool
  | [] => true
  | .gate .shutdown :: rest => rest.all quiet
  | _ :: rest => afterShutdownOk rest

end Rodbus.Spec.LifeObs
