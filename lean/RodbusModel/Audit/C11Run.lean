import RodbusModel.Props.C11Run
/-! axiom audit of every property theorem of Props/C11Run and of the invariant lemmas it uses -/
#print axioms Rodbus.Client.stale_frame_never_accepted_rtu_reachable
#print axioms Rodbus.Client.rtu_stok_reachable
#print axioms Rodbus.Client.rtu_stok_pstInv
#print axioms Rodbus.Client.reachable_pst
#print axioms Rodbus.Client.runState_pst
#print axioms Rodbus.Client.stepState_pst
#print axioms Rodbus.Client.rtu_readerPoll_stok
#print axioms Rodbus.Client.rtu_discard_stok
