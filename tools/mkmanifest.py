#!/usr/bin/env python3
"""Regenerates MANIFEST.json from tools/props.py (keeps the file valid at all times)."""
import json, os, sys
HERE = os.path.dirname(os.path.abspath(__file__))
sys.path.insert(0, HERE)
import props
VERIF = os.path.normpath(os.path.join(HERE, ".."))
ids = [json.loads(l)["id"] for l in open(os.path.join(VERIF, "properties.jsonl"))]
checks = []
na = []
for pid in ids:
    cfg = props.PROPS.get(pid)
    if cfg is None or cfg.get("unclaimed"):
        na.append({"property_id": pid, "reason": (cfg or {}).get("unclaimed", "check under construction; model and theorems for this property are not yet integrated (it will be claimed, it is not out of reach of the technique)")})
        continue
    checks.append({
        "property_id": pid,
        "quick_cmd": f"python3 tools/check.py {pid} --tier quick",
        "thorough_cmd": f"python3 tools/check.py {pid} --tier thorough",
        "evidence_file": f"/verif/evidence/{pid}.json",
        "replay_cmd_template": f"python3 tools/check.py {pid} --replay {{path}}",
        "engine": "lean-model+correspondence",
        "level_claimed": {"category": "proof", "text": cfg["level_text"], "design_ref": f"DESIGN.md section 5 ({pid})"},
        "level_note": cfg["level_note"],
        "technique": cfg.get("technique", "Lean 4 theorems over a hand-written model; translator-generated tables; differential correspondence with the production code"),
    })
m = {
    "version": 1,
    "setup_cmd": "python3 tools/check.py --setup",
    "hooks": {
        "guard": "verif-hooks",
        "enable": "cargo feature `verif-hooks` on the rodbus crate (harness/Cargo.toml depends on /repo/rodbus with features verif-hooks, ffi)",
        "baseline_off_cmd": "cd /repo && cargo test --workspace --no-fail-fast --offline",
        "source_commits": props.HOOK_COMMITS,
        "add_only": True,
    },
    "engines": [{"name": "lean-model+correspondence", "path": "tools/check.py",
                 "serves_properties": [c["property_id"] for c in checks],
                 "kind_free_text": "Lean 4 model + theorems (lake project /verif/lean), translator tools/translate.py, Rust correspondence harness /verif/harness, compiled Lean driver"}],
    "checks": checks,
    "not_applicable": na,
    "notes": "See DESIGN.md. Known findings: KNOWN_FINDINGS.txt.",
}
json.dump(m, open(os.path.join(VERIF, "MANIFEST.json"), "w"), indent=1)
print(f"claimed {len(checks)}, not claimed {len(na)}")
