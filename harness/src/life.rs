//! `life` suite: the production TCP channel task (`create_tcp_client_task_with_options`) against a
//! scripted peer on loopback, real time, with the connection-state listener used as a lock-step
//! gate (the task is blocked inside the listener callback while the harness acts).
//!
//! life r<min ms>.<max ms> m<max timeouts|0> t<request timeout ms> [tls:]<behaviours> <stops>
//!   behaviours: `/`-joined, one per connection attempt (the last one repeats; `<b>*<n>` stands
//!               for n attempts with behaviour b):
//!               refuse | close | garbage | silent | serve | serve<k> | serve<k>w
//!               (serve<k>: answer k requests and close right after the k-th reply; serve<k>w:
//!               answer k requests and close when the next one is received.  A peer that closes
//!               shuts down its sending side and keeps reading, so that it sees the client close)
//!               with the prefix `tls:` the channel is the production TLS client
//!               (`create_tls_client_task_with_options`, self-signed pair ss_a / ss_b of
//!               $VERIF_CERTS) and the behaviours are
//!               refuse | hsclose | hsgarbage | hscert | serve | close
//!               (hsclose: accept the TCP connection and close it at once; hsgarbage: accept and
//!               answer the ClientHello with bytes that are no TLS record; hscert: a rodbus TLS
//!               server presenting a certificate the client does not expect — three ways of
//!               making the handshake fail after the TCP connect succeeded; serve: an in-process
//!               rodbus TLS server (`create_tls_server_task`); close: the same server, shut down
//!               as soon as the client announces `Connected`)
//!   stops:      `,`-joined; each stop is `-` or `+`-joined actions out of
//!               E (enable) D (disable) S (shutdown) X (drop every handle) R (submit a read)
//!               L<0..3> (`Channel::set_decode_level`); `<stop>*<n>` stands for n copies
//! A stop is consumed each time the task reaches a listener callback (gate) or has been quiet
//! for IDLE ms; the stops left over when the task has ended are performed on the handles of the
//! ended task. The peer of every connection reports when it sees the client close it; the log
//! entry `closed` is written in front of the state announced next if the peer of the connection
//! announced `Connected` has seen that by then. Output: the event log (`;`-joined) and a summary.
use crate::util::*;
use rodbus::client::*;
use rodbus::server::*;
use rodbus::*;
use std::collections::VecDeque;
use std::path::PathBuf;
use std::sync::{Arc, Mutex};
use std::time::{Duration, Instant};
use tokio::io::{AsyncReadExt, AsyncWriteExt};

const IDLE_MS: u64 = 450;

struct GateListener {
    tx: tokio::sync::mpsc::UnboundedSender<(ClientState, tokio::sync::oneshot::Sender<()>)>,
}

impl Listener<ClientState> for GateListener {
    fn update(&mut self, value: ClientState) -> MaybeAsync<()> {
        let (rel_tx, rel_rx) = tokio::sync::oneshot::channel();
        let _ = self.tx.send((value, rel_tx));
        MaybeAsync::asynchronous(async move {
            let _ = rel_rx.await;
        })
    }
}

fn state_str(s: ClientState) -> String {
    match s {
        ClientState::Disabled => "Disabled".into(),
        ClientState::Connecting => "Connecting".into(),
        ClientState::Connected => "Connected".into(),
        ClientState::WaitAfterFailedConnect(d) => format!("WaitFail({})", d.as_millis()),
        ClientState::WaitAfterDisconnect(d) => format!("WaitDisc({})", d.as_millis()),
        ClientState::Shutdown => "Shutdown".into(),
    }
}

fn certs() -> PathBuf {
    PathBuf::from(std::env::var("VERIF_CERTS").unwrap_or_else(|_| "/verif/certs".into()))
}

fn cert(name: &str) -> PathBuf {
    certs().join(format!("{name}_cert.pem"))
}

fn key(name: &str) -> PathBuf {
    certs().join(format!("{name}_key.pem"))
}

/// the TLS client of the `tls:` mode: local certificate ss_a, the peer must present ss_b
fn tls_client_config() -> Result<TlsClientConfig, String> {
    TlsClientConfig::self_signed(&cert("ss_b"), &cert("ss_a"), &key("ss_a"), None, MinTlsVersion::V1_2)
        .map_err(|e| format!("config-error:{e}"))
}

/// the in-process TLS server: `local` is the certificate it presents, the client must present ss_a
fn tls_server_config(local: &str) -> Result<TlsServerConfig, String> {
    TlsServerConfig::new(
        &cert("ss_a"),
        &cert(local),
        &key(local),
        None,
        MinTlsVersion::V1_2,
        CertificateMode::SelfSigned,
    )
    .map_err(|e| format!("config-error:{e}"))
}

struct LifeHandler;

impl RequestHandler for LifeHandler {
    fn read_holding_register(&self, _address: u16) -> Result<u16, ExceptionCode> {
        Ok(0x1234)
    }
}

/// behaviours served by an in-process rodbus TLS server rather than by a scripted socket
fn server_side(tls: bool, b: &str) -> bool {
    tls && matches!(b, "serve" | "close" | "hscert")
}

fn decode_level(d: u32) -> DecodeLevel {
    match d {
        0 => DecodeLevel::nothing(),
        1 => DecodeLevel::nothing().application(AppDecodeLevel::FunctionCode),
        2 => DecodeLevel::new(AppDecodeLevel::DataHeaders, FrameDecodeLevel::Header, PhysDecodeLevel::Length),
        _ => DecodeLevel::new(AppDecodeLevel::DataValues, FrameDecodeLevel::Payload, PhysDecodeLevel::Data),
    }
}

/// The loopback port of a case.  It is never released while the case runs (other harness
/// processes pick ephemeral ports all the time): either a socket that is bound but does not
/// listen holds it (a connect is refused), or a listening socket does, of which every attempt
/// gets a duplicate.  The change-over from listening to refusing binds the new holder before the
/// listener is closed (SO_REUSEPORT on our own sockets only, set after the first bind so that no
/// other process can be handed the port).
struct PortKeeper {
    addr: std::net::SocketAddr,
    holder: Option<tokio::net::TcpSocket>,
    master: Option<std::net::TcpListener>,
}

impl PortKeeper {
    fn new() -> Self {
        let s = tokio::net::TcpSocket::new_v4().expect("socket");
        let _ = s.set_reuseaddr(true);
        s.bind("127.0.0.1:0".parse().unwrap()).expect("cannot reserve a port");
        let _ = s.set_reuseport(true);
        let addr = s.local_addr().unwrap();
        PortKeeper { addr, holder: Some(s), master: None }
    }

    fn bind_holder(&self) -> Option<tokio::net::TcpSocket> {
        let s = tokio::net::TcpSocket::new_v4().ok()?;
        let _ = s.set_reuseaddr(true);
        let _ = s.set_reuseport(true);
        s.bind(self.addr).ok()?;
        Some(s)
    }

    /// nothing listens any more: connects are refused (every duplicate of the listener must have
    /// been dropped by the caller)
    fn refuse(&mut self) {
        if self.holder.is_none() {
            self.holder = self.bind_holder();
        }
        self.master = None;
        if self.holder.is_none() {
            self.holder = self.bind_holder();
        }
    }

    /// a listener for one attempt; connections nobody accepted during earlier attempts are gone
    async fn listener(&mut self) -> tokio::net::TcpListener {
        if self.master.is_none() {
            let mut l = match self.holder.take() {
                Some(h) => h.listen(64).ok(),
                None => None,
            };
            if l.is_none() {
                for _ in 0..50 {
                    match tokio::net::TcpListener::bind(self.addr).await {
                        Ok(x) => {
                            l = Some(x);
                            break;
                        }
                        Err(_) => tokio::time::sleep(Duration::from_millis(10)).await,
                    }
                }
            }
            let l = l.expect("cannot re-bind the listener").into_std().expect("into_std");
            let _ = l.set_nonblocking(true);
            self.master = Some(l);
        }
        let m = self.master.as_ref().unwrap();
        while m.accept().is_ok() {}
        tokio::net::TcpListener::from_std(m.try_clone().expect("dup")).expect("from_std")
    }
}

/// what the scripted peers have observed, per connection attempt (`gen`)
#[derive(Default)]
struct PeerLog {
    /// the peer has done what its behaviour says happens unprovoked (closed / sent garbage)
    acted: Vec<usize>,
    /// the peer has seen the client close the connection (EOF or reset)
    closed: Vec<usize>,
}

type Peer = Arc<Mutex<PeerLog>>;

/// wait (at most `ms`) until `cond` holds for what the peers have observed
async fn peer_wait(peer: &Peer, ms: u64, cond: impl Fn(&PeerLog) -> bool) -> bool {
    let start = Instant::now();
    let mut i = 0usize;
    loop {
        if cond(&peer.lock().unwrap()) {
            return true;
        }
        if start.elapsed() > Duration::from_millis(ms) {
            return false;
        }
        if i < 4 {
            tokio::task::yield_now().await;
        } else {
            tokio::time::sleep(Duration::from_millis(1)).await;
        }
        i += 1;
    }
}

/// read (and ignore) whatever the client still sends, until it closes the connection
async fn drain_until_closed(sock: &mut tokio::net::TcpStream, gen: usize, peer: &Peer) {
    let mut buf = [0u8; 1024];
    loop {
        match sock.read(&mut buf).await {
            Ok(0) | Err(_) => break,
            Ok(_) => {}
        }
    }
    peer.lock().unwrap().closed.push(gen);
}

/// `serve<k>` / `serve<k>w`: (k, close only when the next request arrives)
fn serve_limit(behaviour: &str) -> Option<(usize, bool)> {
    let rest = behaviour.strip_prefix("serve")?;
    if rest.is_empty() {
        return None;
    }
    let (digits, wait) = match rest.strip_suffix('w') {
        Some(d) => (d, true),
        None => (rest, false),
    };
    digits.parse::<usize>().ok().map(|k| (k, wait))
}

async fn serve_connection(mut sock: tokio::net::TcpStream, behaviour: String, gen: usize, peer: Peer) {
    match behaviour.as_str() {
        "hsclose" => {
            drop(sock);
        }
        "close" => {
            // close the sending side at once; keep reading to see the client close
            let _ = sock.shutdown().await;
            peer.lock().unwrap().acted.push(gen);
            drain_until_closed(&mut sock, gen, &peer).await;
        }
        "hsgarbage" => {
            // content type 0 is no TLS record: the handshake fails on the client
            let _ = sock.write_all(&[0, 1, 0xFF, 0xFF, 0, 2, 1, 3]).await;
            drain_until_closed(&mut sock, gen, &peer).await;
        }
        "garbage" => {
            // protocol id 0xFFFF: framing error on the client
            let _ = sock.write_all(&[0, 1, 0xFF, 0xFF, 0, 2, 1, 3]).await;
            peer.lock().unwrap().acted.push(gen);
            drain_until_closed(&mut sock, gen, &peer).await;
        }
        "silent" => {
            drain_until_closed(&mut sock, gen, &peer).await;
        }
        b => {
            // serve: answer every read-holding-registers request of one register with 0x1234;
            // serve<k>: k of them, then close; serve<k>w: close when request k+1 has arrived
            let limit = serve_limit(b);
            let mut served = 0usize;
            let mut buf = [0u8; 12];
            loop {
                if let Some((k, false)) = limit {
                    if served >= k {
                        let _ = sock.shutdown().await;
                        peer.lock().unwrap().acted.push(gen);
                        break;
                    }
                }
                if sock.read_exact(&mut buf).await.is_err() {
                    // the client closed (or reset) the connection
                    peer.lock().unwrap().closed.push(gen);
                    return;
                }
                if let Some((k, true)) = limit {
                    if served >= k {
                        let _ = sock.shutdown().await;
                        break;
                    }
                }
                let reply = [buf[0], buf[1], 0, 0, 0, 5, buf[6], 3, 2, 0x12, 0x34];
                if sock.write_all(&reply).await.is_err() {
                    break;
                }
                served += 1;
            }
            drain_until_closed(&mut sock, gen, &peer).await;
        }
    }
}

/// TLS mode, behaviours answered by the in-process rodbus TLS server: the harness accepts the
/// client's TCP connection itself and relays the bytes to the server, so that it sees the client
/// close the connection like the scripted peers do
async fn relay_connection(client: tokio::net::TcpStream, server: std::net::SocketAddr, gen: usize, peer: Peer) {
    let mut client = client;
    let mut server = match tokio::net::TcpStream::connect(server).await {
        Ok(s) => s,
        Err(_) => {
            let _ = client.shutdown().await;
            drain_until_closed(&mut client, gen, &peer).await;
            return;
        }
    };
    let _ = server.set_nodelay(true);
    let _ = client.set_nodelay(true);
    let (mut cr, mut cw) = client.split();
    let (mut sr, mut sw) = server.split();
    let up = async {
        let mut buf = [0u8; 4096];
        let mut server_gone = false;
        loop {
            match cr.read(&mut buf).await {
                Ok(0) | Err(_) => break,
                Ok(n) => {
                    if !server_gone && sw.write_all(&buf[..n]).await.is_err() {
                        server_gone = true;
                    }
                }
            }
        }
        peer.lock().unwrap().closed.push(gen);
        let _ = sw.shutdown().await;
    };
    let down = async {
        let mut buf = [0u8; 4096];
        loop {
            match sr.read(&mut buf).await {
                Ok(0) | Err(_) => break,
                Ok(n) => {
                    if cw.write_all(&buf[..n]).await.is_err() {
                        break;
                    }
                }
            }
        }
        // the server is gone: the client sees the end of the stream
        let _ = cw.shutdown().await;
    };
    tokio::join!(up, down);
}

pub async fn run_life(tok: &[&str]) -> String {
    let (rmin, rmax) = tok[1][1..].split_once('.').unwrap();
    let rmin: u64 = rmin.parse().unwrap();
    let rmax: u64 = rmax.parse().unwrap();
    let maxto: usize = tok[2][1..].parse().unwrap();
    let req_timeout: u64 = tok[3][1..].parse().unwrap();
    let (tls, btok) = match tok[4].strip_prefix("tls:") {
        Some(x) => (true, x),
        None => (false, tok[4]),
    };
    // `<behaviour>*<n>`: n attempts in a row with this behaviour
    let mut behaviours: VecDeque<String> = VecDeque::new();
    for b in btok.split('/') {
        match b.split_once('*') {
            Some((x, n)) => {
                for _ in 0..n.parse::<usize>().unwrap_or(1) {
                    behaviours.push_back(x.to_string());
                }
            }
            None => behaviours.push_back(b.to_string()),
        }
    }
    // `<stop>*<n>`: n copies of the stop
    let mut stops: Vec<&str> = Vec::new();
    if tok[5] != "-" {
        for st in tok[5].split(',') {
            match st.split_once('*') {
                Some((x, n)) => {
                    for _ in 0..n.parse::<usize>().unwrap_or(1) {
                        stops.push(x);
                    }
                }
                None => stops.push(st),
            }
        }
    }

    let log: Arc<Mutex<Vec<String>>> = Arc::new(Mutex::new(Vec::new()));
    let accepts = Arc::new(Mutex::new(0usize));
    let peer: Peer = Arc::new(Mutex::new(PeerLog::default()));
    // number of the connection attempt announced last, and the attempt whose connection has been
    // announced `Connected` and not yet been reported closed
    let mut gen = 0usize;
    let mut open_conn: Option<usize> = None;

    // reserve a port for the whole case
    let mut port = PortKeeper::new();
    let addr = port.addr;
    let mut listener_task: Option<tokio::task::JoinHandle<()>> = None;
    let mut server: Option<(ServerHandle, tokio::task::JoinHandle<()>)> = None;
    let mut cur_behaviour = String::new();

    let (gate_tx, mut gate_rx) = tokio::sync::mpsc::unbounded_channel();
    // the builder's setters must be independent of the order in which they are called
    let order = tok.iter().map(|t| t.len()).sum::<usize>() % 6;
    let lim = std::num::NonZeroUsize::new(maxto);
    let dl = DecodeLevel::nothing();
    let cl = ChannelLoggingMode::StateChanges;
    let o = ClientOptions::default();
    let options = match order {
        0 => o.max_queued_requests(16).max_response_timeouts(lim).decode_level(dl).channel_logging(cl),
        1 => o.max_response_timeouts(lim).decode_level(dl).channel_logging(cl).max_queued_requests(16),
        2 => o.decode_level(dl).channel_logging(cl).max_queued_requests(16).max_response_timeouts(lim),
        3 => o.channel_logging(cl).max_queued_requests(16).max_response_timeouts(lim).decode_level(dl),
        4 => o.max_response_timeouts(lim).max_queued_requests(16).channel_logging(cl).decode_level(dl),
        _ => o.decode_level(dl).max_response_timeouts(lim).max_queued_requests(16).channel_logging(cl),
    };
    let (channel, task) = if tls {
        let cfg = match tls_client_config() {
            Ok(c) => c,
            Err(e) => return e,
        };
        create_tls_client_task_with_options(
            HostAddr::ip(addr.ip(), addr.port()),
            doubling_retry_strategy(Duration::from_millis(rmin), Duration::from_millis(rmax)),
            cfg,
            Some(Box::new(GateListener { tx: gate_tx })),
            options,
        )
    } else {
        create_tcp_client_task_with_options(
            HostAddr::ip(addr.ip(), addr.port()),
            doubling_retry_strategy(Duration::from_millis(rmin), Duration::from_millis(rmax)),
            Some(Box::new(GateListener { tx: gate_tx })),
            options,
        )
    };
    let join = tokio::spawn(task.run());
    // two handles: the second one is used for every other action after the task has ended
    let mut handles: Vec<Channel> = vec![channel.clone(), channel];
    let mut stop_idx = 0usize;
    let mut rid = 0usize;
    let mut wait_started: Option<(Instant, u128)> = None;
    let mut saw_shutdown = false;
    let max_stops = stops.len() + 2;

    while stop_idx < max_stops {
        let ev = tokio::time::timeout(Duration::from_millis(IDLE_MS), gate_rx.recv()).await;
        let mut release: Option<tokio::sync::oneshot::Sender<()>> = None;
        match ev {
            Ok(Some((state, rel))) => {
                // the connection announced `Connected` must be closed before the next state is
                // announced: by now its peer has seen that (loopback), or it never will
                if let Some(g) = open_conn.take() {
                    if peer_wait(&peer, 300, |p| p.closed.contains(&g)).await {
                        log.lock().unwrap().push("closed".into());
                    }
                }
                log.lock().unwrap().push(format!("g:{}", state_str(state)));
                match state {
                    ClientState::Connecting => {
                        if let Some((t, d)) = wait_started.take() {
                            if t.elapsed().as_millis() + 1 < d {
                                log.lock().unwrap().push("early".into());
                            }
                        }
                        // set the environment up for this attempt
                        let b = if behaviours.len() > 1 {
                            behaviours.pop_front().unwrap()
                        } else {
                            behaviours[0].clone()
                        };
                        if let Some(t) = listener_task.take() {
                            t.abort();
                            let _ = t.await;
                        }
                        if let Some((h, t)) = server.take() {
                            t.abort();
                            let _ = t.await;
                            drop(h);
                        }
                        cur_behaviour = b.clone();
                        gen += 1;
                        if b == "refuse" {
                            port.refuse();
                        } else {
                            let l = port.listener().await;
                            if server_side(tls, &b) {
                                // hscert: the server presents ss_impostor, the client expects ss_b
                                let cfg = match tls_server_config(if b == "hscert" { "ss_impostor" } else { "ss_b" }) {
                                    Ok(c) => c,
                                    Err(e) => return e,
                                };
                                // the server listens on a port of its own; the harness relays
                                let inner = match tokio::net::TcpListener::bind("127.0.0.1:0").await {
                                    Ok(x) => x,
                                    Err(e) => return format!("bind-error:{e}"),
                                };
                                let inner_addr = inner.local_addr().unwrap();
                                let (h, t) = create_tls_server_task(
                                    1,
                                    inner,
                                    ServerHandlerMap::single(UnitId::new(1), LifeHandler.wrap()),
                                    cfg,
                                    AddressFilter::Any,
                                    DecodeLevel::nothing(),
                                );
                                server = Some((h, tokio::spawn(t.run())));
                                let accepts = accepts.clone();
                                let peer = peer.clone();
                                listener_task = Some(tokio::spawn(async move {
                                    if let Ok((sock, _)) = l.accept().await {
                                        *accepts.lock().unwrap() += 1;
                                        drop(l);
                                        relay_connection(sock, inner_addr, gen, peer).await;
                                    }
                                }));
                            } else {
                                let accepts = accepts.clone();
                                let peer = peer.clone();
                                listener_task = Some(tokio::spawn(async move {
                                    if let Ok((sock, _)) = l.accept().await {
                                        *accepts.lock().unwrap() += 1;
                                        drop(l);
                                        serve_connection(sock, b, gen, peer).await;
                                    }
                                }));
                            }
                        }
                    }
                    ClientState::Connected => {
                        open_conn = Some(gen);
                        // tls close: the handshake succeeded, now the server goes away
                        if tls && cur_behaviour == "close" {
                            if let Some((h, t)) = server.take() {
                                t.abort();
                                let _ = t.await;
                                drop(h);
                            }
                        } else if !tls
                            && (cur_behaviour == "close" || cur_behaviour == "garbage" || cur_behaviour == "serve0")
                        {
                            // the peer's EOF / garbage shall be there when the session starts: with
                            // commands queued at this gate both branches of `poll` are ready
                            let g = gen;
                            if peer_wait(&peer, 200, |p| p.acted.contains(&g)).await {
                                tokio::time::sleep(Duration::from_millis(2)).await;
                            }
                        }
                    }
                    ClientState::WaitAfterFailedConnect(d) | ClientState::WaitAfterDisconnect(d) => {
                        wait_started = Some((Instant::now(), d.as_millis()));
                    }
                    ClientState::Disabled => {
                        wait_started = None;
                    }
                    ClientState::Shutdown => {
                        saw_shutdown = true;
                    }
                }
                release = Some(rel);
            }
            Ok(None) => {
                // the task (and its listener) is gone
                break;
            }
            Err(_) => {
                log.lock().unwrap().push("idle".into());
            }
        }
        // scripted actions of this stop
        if let Some(stop) = stops.get(stop_idx) {
            for a in stop.split('+') {
                match a {
                    "E" | "D" | "S" => {
                        if let Some(ch) = handles.first() {
                            let mut f = FfiChannel::new(ch.clone());
                            match a {
                                "E" => {
                                    let _ = f.enable();
                                }
                                "D" => {
                                    let _ = f.disable();
                                }
                                _ => {
                                    let ch = ch.clone();
                                    // queue the shutdown command without blocking the driver
                                    tokio::spawn(async move {
                                        let _ = ch.shutdown().await;
                                    });
                                    tokio::task::yield_now().await;
                                }
                            }
                            log.lock().unwrap().push(format!("a:{a}"));
                        }
                    }
                    "X" => {
                        // like every other action: only possible while a handle exists
                        if !handles.is_empty() {
                            handles.clear();
                            log.lock().unwrap().push("a:X".into());
                        }
                    }
                    a if a.starts_with('L') => {
                        if let Some(ch) = handles.first() {
                            let d: u32 = a[1..].parse().unwrap_or(0);
                            // a queued command like enable / disable: returns once it is queued
                            let r = tokio::time::timeout(
                                Duration::from_millis(1000),
                                ch.set_decode_level(decode_level(d)),
                            )
                            .await;
                            log.lock().unwrap().push(match r {
                                Ok(Ok(())) => format!("a:L{d}"),
                                Ok(Err(_)) => format!("a:L{d}:shutdown"),
                                Err(_) => format!("a:L{d}:blocked"),
                            });
                        }
                    }
                    "R" => {
                        if let Some(ch) = handles.first() {
                            rid += 1;
                            let id = rid;
                            let ch = ch.clone();
                            let log2 = log.clone();
                            log.lock().unwrap().push(format!("a:R{id}"));
                            tokio::spawn(async move {
                                let res = ch
                                    .read_holding_registers(
                                        RequestParam::new(
                                            UnitId::new(1),
                                            Duration::from_millis(req_timeout),
                                        ),
                                        AddressRange::try_from(0, 1).unwrap(),
                                    )
                                    .await;
                                let s = match res {
                                    Ok(v) => format!("ok.{}", v[0].value),
                                    Err(e) => req_err(e),
                                };
                                log2.lock().unwrap().push(format!("done:R{id}:{s}"));
                            });
                            // let the submission reach the queue before anything else happens
                            settle_n(5).await;
                        }
                    }
                    _ => {}
                }
            }
        }
        stop_idx += 1;
        if let Some(rel) = release {
            let _ = rel.send(());
        }
        if saw_shutdown {
            break;
        }
    }
    // wind down: shutdown must be honoured from wherever the task is
    let mut fin = "term";
    if !saw_shutdown {
        if let Some(ch) = handles.first() {
            let ch = ch.clone();
            tokio::spawn(async move {
                let _ = ch.shutdown().await;
            });
        }
        let deadline = Instant::now() + Duration::from_millis(3000);
        loop {
            match tokio::time::timeout(Duration::from_millis(100), gate_rx.recv()).await {
                Ok(Some((state, rel))) => {
                    if state == ClientState::Shutdown {
                        saw_shutdown = true;
                    }
                    let _ = rel.send(());
                    if saw_shutdown {
                        break;
                    }
                }
                Ok(None) => break,
                Err(_) => {}
            }
            if Instant::now() > deadline {
                fin = "hung";
                break;
            }
        }
    }
    if tokio::time::timeout(Duration::from_millis(2000), join).await.is_err() {
        fin = "hung";
    }
    // stops left over when the task has ended: performed on the handles of the ended task
    // (alternately on the two handles); every call must report shutdown, nothing may be announced
    if saw_shutdown && fin == "term" {
        settle_n(5).await;
        let mut k = 0usize;
        for stop in stops.iter().skip(stop_idx) {
            for a in stop.split('+') {
                if handles.is_empty() {
                    break;
                }
                k += 1;
                let ch = handles[k % handles.len()].clone();
                let t = Duration::from_millis(1000);
                let verdict = |r: Result<Result<(), Shutdown>, tokio::time::error::Elapsed>| match r {
                    Ok(Ok(())) => "",
                    Ok(Err(_)) => ":shutdown",
                    Err(_) => ":blocked",
                };
                match a {
                    "E" => {
                        let r = verdict(tokio::time::timeout(t, ch.enable()).await);
                        log.lock().unwrap().push(format!("a:E{r}"));
                    }
                    "D" => {
                        let r = verdict(tokio::time::timeout(t, ch.disable()).await);
                        log.lock().unwrap().push(format!("a:D{r}"));
                    }
                    "S" => {
                        let r = verdict(tokio::time::timeout(t, ch.shutdown()).await);
                        log.lock().unwrap().push(format!("a:S{r}"));
                    }
                    "X" => {
                        handles.clear();
                        log.lock().unwrap().push("a:X".into());
                    }
                    a if a.starts_with('L') => {
                        let d: u32 = a[1..].parse().unwrap_or(0);
                        let r = verdict(tokio::time::timeout(t, ch.set_decode_level(decode_level(d))).await);
                        log.lock().unwrap().push(format!("a:L{d}{r}"));
                    }
                    "R" => {
                        rid += 1;
                        log.lock().unwrap().push(format!("a:R{rid}"));
                        let r = tokio::time::timeout(
                            t,
                            ch.read_holding_registers(
                                RequestParam::new(UnitId::new(1), Duration::from_millis(req_timeout)),
                                AddressRange::try_from(0, 1).unwrap(),
                            ),
                        )
                        .await;
                        let s = match r {
                            Ok(Ok(v)) => format!("ok.{}", v[0].value),
                            Ok(Err(e)) => req_err(e),
                            Err(_) => "pending".into(),
                        };
                        log.lock().unwrap().push(format!("done:R{rid}:{s}"));
                    }
                    _ => {}
                }
            }
        }
        // a state announced now would be a second life of the task
        if let Ok((state, rel)) = gate_rx.try_recv() {
            log.lock().unwrap().push(format!("g:{}", state_str(state)));
            let _ = rel.send(());
        }
    }
    // after shutdown every handle reports shutdown
    let mut after = "-".to_string();
    if let Some(ch) = handles.first() {
        let r = tokio::time::timeout(
            Duration::from_millis(1000),
            ch.read_holding_registers(
                RequestParam::new(UnitId::new(1), Duration::from_millis(50)),
                AddressRange::try_from(0, 1).unwrap(),
            ),
        )
        .await;
        after = match r {
            Ok(Ok(_)) => "ok".into(),
            Ok(Err(e)) => req_err(e),
            Err(_) => "pending".into(),
        };
    }
    if let Some(t) = listener_task.take() {
        t.abort();
    }
    if let Some((h, t)) = server.take() {
        t.abort();
        let _ = t.await;
        drop(h);
    }
    drop(port);
    tokio::time::sleep(Duration::from_millis(20)).await;
    let entries = log.lock().unwrap().clone();
    let l = entries.join(";");
    // a connection reaches the peer only for an announced attempt, and every announced
    // connection was accepted by the peer (the exact count depends on when an attempt is dropped)
    let n_connecting = entries.iter().filter(|e| *e == "g:Connecting").count();
    let n_connected = entries.iter().filter(|e| *e == "g:Connected").count();
    let acc = *accepts.lock().unwrap();
    let acc_ok = acc <= n_connecting + 1 && acc >= n_connected;
    format!(
        "{} | shutdown_seen={} fin={} after={} acc={}",
        if l.is_empty() { "-".into() } else { l },
        saw_shutdown,
        fin,
        after,
        if acc_ok { "ok".to_string() } else { format!("bad({acc}/{n_connecting}/{n_connected})") }
    )
}

/// `slife r<min us>.<max us> <n>`: the production RTU client channel on a serial device path that
/// does not exist: every open fails, so the task announces `PortState::Wait(delay)` with the
/// delays of its retry strategy. Output: the first `n` announced delays in microseconds.
pub async fn run_slife(tok: &[&str]) -> String {
    struct L {
        tx: tokio::sync::mpsc::UnboundedSender<PortState>,
    }
    impl Listener<PortState> for L {
        fn update(&mut self, value: PortState) -> MaybeAsync<()> {
            let _ = self.tx.send(value);
            MaybeAsync::ready(())
        }
    }
    let (rmin, rmax) = tok[1][1..].split_once('.').unwrap();
    let rmin: u64 = rmin.parse().unwrap();
    let rmax: u64 = rmax.parse().unwrap();
    let n: usize = tok[2].parse().unwrap();
    let (tx, mut rx) = tokio::sync::mpsc::unbounded_channel();
    let channel = spawn_rtu_client_task(
        "/dev/verif-no-such-serial-port",
        SerialSettings::default(),
        4,
        doubling_retry_strategy(Duration::from_micros(rmin), Duration::from_micros(rmax)),
        DecodeLevel::nothing(),
        Some(Box::new(L { tx })),
    );
    let _ = channel.enable().await;
    let mut out = Vec::new();
    let deadline = tokio::time::Instant::now() + Duration::from_millis(3000);
    while out.len() < n {
        match tokio::time::timeout_at(deadline, rx.recv()).await {
            Ok(Some(PortState::Wait(d))) => out.push(d.as_micros().to_string()),
            Ok(Some(PortState::Open)) => out.push("open".into()),
            Ok(Some(_)) => {}
            _ => break,
        }
    }
    let _ = channel.shutdown().await;
    if out.is_empty() {
        "-".into()
    } else {
        out.join(",")
    }
}
