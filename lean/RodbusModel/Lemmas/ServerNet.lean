import RodbusModel.Model.ServerNet
/-
  Lemmas about the connection table of the accept-loop model `ServerNet`
  (`lookup` through `setConn`, `sweep`, entry removal, closing everything).
-/
namespace Rodbus.ServerNet

/-- what `sweep` does to one table value: an id survives iff it is still tracked -/
def sweepVal (t : Tracker.Tracker) (v : Option Nat) : Option Nat :=
  v.filter (fun id => t.ids.contains id)

theorem find_key_filter_ne (l : List (Nat × Option Nat)) (a b : Nat) (h : a ≠ b) :
    (l.filter (·.1 ≠ b)).find? (·.1 = a) = l.find? (·.1 = a) := by
  rw [List.find?_filter]
  congr 1
  funext x
  by_cases hx : x.1 = a
  · have : x.1 ≠ b := by rw [hx]; exact h
    simp [hx, h]
  · simp [hx]

theorem find_key_filter_self (l : List (Nat × Option Nat)) (k : Nat) :
    (l.filter (·.1 ≠ k)).find? (·.1 = k) = none := by
  rw [List.find?_eq_none]
  intro x hx
  have := (List.mem_filter.mp hx).2
  simpa using this

theorem lookup_setConn_ne (n : Net) (a b : Nat) (v : Option Nat) (h : a ≠ b) :
    lookup (setConn n b v) a = lookup n a := by
  simp only [lookup, setConn]
  rw [List.find?_append, find_key_filter_ne _ _ _ h]
  have : ([((b, v) : Nat × Option Nat)].find? (·.1 = a)) = none := by
    simp [List.find?_singleton]; exact fun e => h e.symm
  rw [this]
  cases n.conns.find? (·.1 = a) <;> rfl

theorem lookup_setConn_self (n : Net) (k : Nat) (v : Option Nat) :
    lookup (setConn n k v) k = some v := by
  simp only [lookup, setConn]
  rw [List.find?_append, find_key_filter_self]
  simp

theorem lookup_remove_ne (n : Net) (a b : Nat) (h : a ≠ b) :
    lookup { n with conns := n.conns.filter (·.1 ≠ b) } a = lookup n a := by
  simp only [lookup]
  rw [find_key_filter_ne _ _ _ h]

theorem lookup_remove_self (n : Net) (k : Nat) :
    lookup { n with conns := n.conns.filter (·.1 ≠ k) } k = none := by
  simp only [lookup]
  rw [find_key_filter_self]; rfl

theorem sweep_conns (n : Net) :
    (sweep n).conns = n.conns.map (fun c => (c.1, sweepVal n.tracker c.2)) := by
  simp only [sweep]
  apply List.map_congr_left
  intro c _
  obtain ⟨k, v⟩ := c
  cases v with
  | none => rfl
  | some id =>
    simp only [sweepVal, Option.filter]
    split <;> rfl

theorem lookup_sweep (n : Net) (a : Nat) :
    lookup (sweep n) a = (lookup n a).map (sweepVal n.tracker) := by
  simp only [lookup, sweep_conns]
  rw [List.find?_map]
  have : ((fun x : Nat × Option Nat => decide (x.1 = a)) ∘
      fun c : Nat × Option Nat => (c.1, sweepVal n.tracker c.2)) = (fun x => decide (x.1 = a)) := rfl
  rw [this]
  cases n.conns.find? (·.1 = a) <;> rfl

theorem lookup_closeAll (l : List (Nat × Option Nat)) (a : Nat) :
    ((l.map fun (k, _) => (k, (none : Option Nat))).find? (·.1 = a)).map (·.2)
      = ((l.find? (·.1 = a)).map (·.2)).map (fun _ => none) := by
  rw [List.find?_map]
  have : ((fun x : Nat × Option Nat => decide (x.1 = a)) ∘
      fun (x : Nat × Option Nat) => match x with | (k, _) => (k, (none : Option Nat)))
        = (fun x => decide (x.1 = a)) := by
    funext x; obtain ⟨k, v⟩ := x; rfl
  rw [this]
  cases l.find? (·.1 = a) <;> rfl

theorem mem_of_lookup {n : Net} {k : Nat} {v : Option Nat} (h : lookup n k = some v) :
    (k, v) ∈ n.conns := by
  simp only [lookup] at h
  cases hf : n.conns.find? (·.1 = k) with
  | none => rw [hf] at h; cases h
  | some x =>
    rw [hf] at h
    have h1 := List.find?_some hf
    have h2 := List.mem_of_find?_eq_some hf
    obtain ⟨k', v'⟩ := x
    simp at h h1
    subst h h1
    exact h2

theorem isOpen_iff (n : Net) (k : Nat) : isOpen n k = true ↔ ∃ id, lookup n k = some (some id) := by
  unfold isOpen
  cases lookup n k with
  | none => simp
  | some v => cases v <;> simp

end Rodbus.ServerNet
