//! Shared environment: the harness's own tokio runtime (scripted peers, Rust-API twin runs), the
//! long-lived "world" created through the C ABI (runtime, server with several units, client).
use crate::cb::*;
use rodbus_ffi::ffi;
use std::ffi::CString;
use std::os::raw::{c_int, c_void};
use std::sync::atomic::{AtomicU16, Ordering};
use std::sync::{Mutex, OnceLock};
use std::time::Duration;
use tokio::io::{AsyncReadExt, AsyncWriteExt};

pub const UNIT_MAIN: u8 = 1; // 4 x 100 points, write handler in the mode selected per case
pub const UNIT_NULL: u8 = 2; // write handler without any callback
pub const UNIT_DB: u8 = 3; // empty database (suite `ffi db`)
pub const UNIT_ATOMIC: u8 = 4; // suite `ffi atomic`
pub const MAIN_POINTS: u16 = 100;

pub const CLIENT_CONNECTED: c_int = 2;

pub fn hrt() -> &'static tokio::runtime::Runtime {
    static RT: OnceLock<tokio::runtime::Runtime> = OnceLock::new();
    RT.get_or_init(|| {
        tokio::runtime::Builder::new_multi_thread()
            .worker_threads(2)
            .enable_all()
            .build()
            .unwrap()
    })
}

// ---------------------------------------------------------------- ports

static PORT_COUNTER: AtomicU16 = AtomicU16::new(0);

/// candidate ports: base 20000 + (pid % 1000)*20 + counter first, afterwards whatever the OS
/// hands out; a candidate is returned only if it can be bound right now
pub fn free_port() -> u16 {
    for _ in 0..200 {
        let n = PORT_COUNTER.fetch_add(1, Ordering::SeqCst);
        let cand = if n < 20 {
            20000 + ((std::process::id() % 1000) as u16) * 20 + n
        } else {
            0
        };
        if let Ok(l) = std::net::TcpListener::bind(("127.0.0.1", cand)) {
            if let Ok(a) = l.local_addr() {
                return a.port();
            }
        }
    }
    panic!("no free port");
}

// ---------------------------------------------------------------- point values

pub fn bit_value(table: u8, a: u16) -> bool {
    let a = a as u32;
    (7 * a + 13 * table as u32 + a / 8) % 3 == 0
}

pub fn reg_value(table: u8, a: u16) -> u16 {
    ((31 * a as u32 + 977 * table as u32 + 5) % 65536) as u16
}

// ---------------------------------------------------------------- write handler of the world

#[derive(Clone, Copy, Debug)]
pub enum WMode {
    /// return exactly this `WriteResult`
    Fixed { success: bool, exception: c_int, raw: u8 },
    /// apply the write to the database: success iff every point exists, else IllegalDataAddress
    Apply,
}

pub static WMODE: Mutex<WMode> = Mutex::new(WMode::Apply);
/// what the application callback received, in call order
pub static WLOG: Mutex<Vec<String>> = Mutex::new(Vec::new());

fn wres(success: bool, exception: c_int, raw: u8) -> ffi::WriteResult {
    ffi::WriteResult {
        success,
        exception,
        raw_exception: raw,
    }
}

/// `WriteResult::success_init()`
pub fn wr_success() -> (bool, c_int, u8) {
    (true, 255, 0)
}
/// `WriteResult::exception_init(e)`
pub fn wr_exception(e: c_int) -> (bool, c_int, u8) {
    (false, e, 0)
}
/// `WriteResult::raw_exception_init(b)`
pub fn wr_raw(b: u8) -> (bool, c_int, u8) {
    (false, 255, b)
}

fn finish(applied_ok: bool) -> ffi::WriteResult {
    match *WMODE.lock().unwrap() {
        WMode::Fixed { success, exception, raw } => wres(success, exception, raw),
        WMode::Apply => {
            if applied_ok {
                wres(true, 255, 0)
            } else {
                wres(false, 2, 0)
            }
        }
    }
}

fn applying() -> bool {
    matches!(*WMODE.lock().unwrap(), WMode::Apply)
}

extern "C" fn h_write_single_coil(index: u16, value: bool, db: *mut rodbus_ffi::Database, _ctx: *mut c_void) -> ffi::WriteResult {
    WLOG.lock().unwrap().push(format!("wc.{}.{}", index, value as u8));
    let ok = if applying() {
        unsafe { ffi::rodbus_database_update_coil(db, index, value) }
    } else {
        true
    };
    finish(ok)
}

extern "C" fn h_write_single_register(index: u16, value: u16, db: *mut rodbus_ffi::Database, _ctx: *mut c_void) -> ffi::WriteResult {
    WLOG.lock().unwrap().push(format!("wr.{}.{}", index, value));
    let ok = if applying() {
        unsafe { ffi::rodbus_database_update_holding_register(db, index, value) }
    } else {
        true
    };
    finish(ok)
}

extern "C" fn h_write_multiple_coils<'a>(
    start: u16,
    it: *mut rodbus_ffi::BitValueIterator<'a>,
    db: *mut rodbus_ffi::Database,
    _ctx: *mut c_void,
) -> ffi::WriteResult {
    let mut items = Vec::new();
    unsafe {
        loop {
            let p = ffi::rodbus_bit_value_iterator_next(it);
            if p.is_null() {
                break;
            }
            items.push(((*p).index, (*p).value));
        }
        // an exhausted iterator stays exhausted
        if !ffi::rodbus_bit_value_iterator_next(it).is_null() {
            WLOG.lock().unwrap().push("wC!more".into());
        }
    }
    WLOG.lock().unwrap().push(format!("wC.{}.{}", start, bits_text(&items)));
    let mut ok = true;
    if applying() {
        for (i, v) in &items {
            if !unsafe { ffi::rodbus_database_update_coil(db, *i, *v) } {
                ok = false;
                break;
            }
        }
    }
    finish(ok)
}

extern "C" fn h_write_multiple_registers<'a>(
    start: u16,
    it: *mut rodbus_ffi::RegisterValueIterator<'a>,
    db: *mut rodbus_ffi::Database,
    _ctx: *mut c_void,
) -> ffi::WriteResult {
    let mut items = Vec::new();
    unsafe {
        loop {
            let p = ffi::rodbus_register_value_iterator_next(it);
            if p.is_null() {
                break;
            }
            items.push(((*p).index, (*p).value));
        }
        if !ffi::rodbus_register_value_iterator_next(it).is_null() {
            WLOG.lock().unwrap().push("wR!more".into());
        }
    }
    WLOG.lock().unwrap().push(format!("wR.{}.{}", start, regs_text(&items)));
    let mut ok = true;
    if applying() {
        for (i, v) in &items {
            if !unsafe { ffi::rodbus_database_update_holding_register(db, *i, *v) } {
                ok = false;
                break;
            }
        }
    }
    finish(ok)
}

extern "C" fn nop_destroy(_ctx: *mut c_void) {}

pub fn full_write_handler() -> ffi::WriteHandler {
    ffi::WriteHandler {
        write_single_coil: Some(h_write_single_coil),
        write_single_register: Some(h_write_single_register),
        write_multiple_coils: Some(h_write_multiple_coils),
        write_multiple_registers: Some(h_write_multiple_registers),
        on_destroy: Some(nop_destroy),
        ctx: std::ptr::null_mut(),
    }
}

pub fn null_write_handler() -> ffi::WriteHandler {
    ffi::WriteHandler {
        write_single_coil: None,
        write_single_register: None,
        write_multiple_coils: None,
        write_multiple_registers: None,
        on_destroy: Some(nop_destroy),
        ctx: std::ptr::null_mut(),
    }
}

// ---------------------------------------------------------------- database callbacks

/// a `DatabaseCallback` that runs a Rust closure (the closure is boxed into the context and freed
/// by `on_destroy`)
type DbFn = Box<dyn FnMut(*mut rodbus_ffi::Database) + Send>;

extern "C" fn db_cb(db: *mut rodbus_ffi::Database, ctx: *mut c_void) {
    let f = unsafe { &mut *(ctx as *mut DbFn) };
    f(db);
}

extern "C" fn db_cb_destroy(ctx: *mut c_void) {
    unsafe { drop(Box::from_raw(ctx as *mut DbFn)) };
}

pub fn database_callback(f: impl FnMut(*mut rodbus_ffi::Database) + Send + 'static) -> ffi::DatabaseCallback {
    let b: Box<DbFn> = Box::new(Box::new(f));
    ffi::DatabaseCallback {
        callback: Some(db_cb),
        on_destroy: Some(db_cb_destroy),
        ctx: Box::into_raw(b) as *mut c_void,
    }
}

fn fill_main(db: *mut rodbus_ffi::Database) {
    unsafe {
        for a in 0..MAIN_POINTS {
            ffi::rodbus_database_add_coil(db, a, bit_value(0, a));
            ffi::rodbus_database_add_discrete_input(db, a, bit_value(1, a));
            ffi::rodbus_database_add_holding_register(db, a, reg_value(2, a));
            ffi::rodbus_database_add_input_register(db, a, reg_value(3, a));
        }
    }
}

// ---------------------------------------------------------------- small constructors

pub fn decode_nothing() -> ffi::DecodeLevel {
    ffi::DecodeLevel {
        app: 0,
        frame: 0,
        physical: 0,
    }
}

pub fn retry_ms(min: u64, max: u64) -> ffi::RetryStrategy {
    ffi::RetryStrategy {
        min_delay: min,
        max_delay: max,
    }
}

pub fn param(unit: u8, timeout_ms: u64) -> ffi::RequestParam {
    ffi::RequestParam {
        unit_id: unit,
        timeout: timeout_ms,
    }
}

pub struct Ptr<T>(pub *mut T);
unsafe impl<T> Send for Ptr<T> {}
unsafe impl<T> Sync for Ptr<T> {}
impl<T> Clone for Ptr<T> {
    fn clone(&self) -> Self {
        Ptr(self.0)
    }
}
impl<T> Copy for Ptr<T> {}

pub fn create_runtime(threads: u16) -> *mut rodbus_ffi::Runtime {
    let mut rt: *mut rodbus_ffi::Runtime = std::ptr::null_mut();
    let rc = unsafe { ffi::rodbus_runtime_create(ffi::RuntimeConfig { num_core_threads: threads }, &mut rt) };
    assert_eq!(rc, 0, "runtime_create");
    rt
}

/// a client channel created through the C ABI; returns the channel and its state log
pub fn create_client(
    rt: *mut rodbus_ffi::Runtime,
    port: u16,
    max_queued: u16,
    retry: ffi::RetryStrategy,
) -> (*mut rodbus_ffi::ClientChannel, States) {
    let host = CString::new("127.0.0.1").unwrap();
    let (states, listener) = state_listener();
    let mut ch: *mut rodbus_ffi::ClientChannel = std::ptr::null_mut();
    let rc = unsafe {
        ffi::rodbus_client_channel_create_tcp(rt, host.as_ptr(), port, max_queued, retry, decode_nothing(), listener, &mut ch)
    };
    assert_eq!(rc, 0, "client_channel_create_tcp");
    (ch, states)
}

// ---------------------------------------------------------------- the world

pub struct World {
    pub runtime: Ptr<rodbus_ffi::Runtime>,
    pub server: Ptr<rodbus_ffi::Server>,
    pub port: u16,
    pub client: Ptr<rodbus_ffi::ClientChannel>,
    pub states: States,
    /// Rust-API twin client connected to the same server
    pub rust: rodbus::client::Channel,
}

static WORLD: OnceLock<World> = OnceLock::new();

pub struct RustStates(pub std::sync::Arc<(Mutex<Vec<rodbus::client::ClientState>>, std::sync::Condvar)>);

impl rodbus::client::Listener<rodbus::client::ClientState> for RustStates {
    fn update(&mut self, value: rodbus::client::ClientState) -> rodbus::MaybeAsync<()> {
        self.0 .0.lock().unwrap().push(value);
        self.0 .1.notify_all();
        rodbus::MaybeAsync::ready(())
    }
}

/// Rust-API client channel on the harness runtime, enabled, connected (if `expect_connect`)
pub fn rust_client(port: u16, max_queued: usize, enable: bool, expect_connect: bool) -> rodbus::client::Channel {
    let log = std::sync::Arc::new((Mutex::new(Vec::new()), std::sync::Condvar::new()));
    let l = RustStates(log.clone());
    let ch = hrt().block_on(async move {
        let ch = rodbus::client::spawn_tcp_client_task(
            rodbus::client::HostAddr::ip("127.0.0.1".parse().unwrap(), port),
            max_queued,
            rodbus::doubling_retry_strategy(Duration::from_millis(100), Duration::from_millis(100)),
            rodbus::DecodeLevel::nothing(),
            Some(Box::new(l)),
        );
        if enable {
            ch.enable().await.unwrap();
        }
        ch
    });
    if enable && expect_connect {
        let deadline = std::time::Instant::now() + Duration::from_secs(3);
        let mut st = log.0.lock().unwrap();
        while st.last() != Some(&rodbus::client::ClientState::Connected) {
            let now = std::time::Instant::now();
            if now >= deadline {
                break;
            }
            st = log.1.wait_timeout(st, deadline - now).unwrap().0;
        }
    }
    ch
}

fn build_world() -> World {
    let rt = create_runtime(2);
    unsafe {
        let map = ffi::rodbus_device_map_create();
        assert!(ffi::rodbus_device_map_add_endpoint(map, UNIT_MAIN, full_write_handler(), database_callback(fill_main)));
        assert!(ffi::rodbus_device_map_add_endpoint(map, UNIT_NULL, null_write_handler(), database_callback(fill_main)));
        assert!(ffi::rodbus_device_map_add_endpoint(map, UNIT_DB, full_write_handler(), database_callback(|_| {})));
        assert!(ffi::rodbus_device_map_add_endpoint(map, UNIT_ATOMIC, full_write_handler(), database_callback(|_| {})));
        let filter = ffi::rodbus_address_filter_any();
        let addr = CString::new("127.0.0.1").unwrap();
        let mut server: *mut rodbus_ffi::Server = std::ptr::null_mut();
        let mut port = 0;
        for _ in 0..20 {
            port = free_port();
            let rc = ffi::rodbus_server_create_tcp(rt, addr.as_ptr(), port, filter, 100, map, decode_nothing(), &mut server);
            if rc == 0 {
                break;
            }
        }
        assert!(!server.is_null(), "server_create_tcp");
        ffi::rodbus_address_filter_destroy(filter);
        ffi::rodbus_device_map_destroy(map);
        let (client, states) = create_client(rt, port, 16, retry_ms(100, 100));
        assert_eq!(ffi::rodbus_client_channel_enable(client), 0);
        assert!(wait_state(&states, CLIENT_CONNECTED, Duration::from_secs(3)), "world client did not connect");
        let rust = rust_client(port, 16, true, true);
        World {
            runtime: Ptr(rt),
            server: Ptr(server),
            port,
            client: Ptr(client),
            states,
            rust,
        }
    }
}

pub fn world() -> &'static World {
    WORLD.get_or_init(build_world)
}

/// run a transaction on a unit of the world's server
pub fn transaction(unit: u8, f: impl FnMut(*mut rodbus_ffi::Database) + Send + 'static) -> c_int {
    unsafe { ffi::rodbus_server_update_database(world().server.0, unit, database_callback(f)) }
}

// ---------------------------------------------------------------- scripted peers

#[derive(Clone, Copy, Debug)]
pub enum PeerMode {
    /// answer every request with `[fc | 0x80, code]`
    Exception(u8),
    /// never answer
    Silent,
    /// answer with a PDU whose function code is neither the request's nor its error form
    BadResponse,
    /// answer with a frame whose MBAP protocol id is 1
    BadFrame,
    /// close the connection when a request arrives
    Close,
}

pub struct Peer {
    pub port: u16,
    task: tokio::task::JoinHandle<()>,
}

impl Drop for Peer {
    fn drop(&mut self) {
        self.task.abort();
    }
}

async fn peer_conn(mut s: tokio::net::TcpStream, mode: PeerMode) {
    loop {
        let mut hdr = [0u8; 7];
        if s.read_exact(&mut hdr).await.is_err() {
            return;
        }
        let len = u16::from_be_bytes([hdr[4], hdr[5]]) as usize;
        if len == 0 {
            return;
        }
        let mut pdu = vec![0u8; len - 1];
        if s.read_exact(&mut pdu).await.is_err() {
            return;
        }
        let fc = pdu.first().copied().unwrap_or(0);
        let reply = |proto: u16, body: &[u8]| {
            let mut out = vec![hdr[0], hdr[1]];
            out.extend_from_slice(&proto.to_be_bytes());
            out.extend_from_slice(&((body.len() + 1) as u16).to_be_bytes());
            out.push(hdr[6]);
            out.extend_from_slice(body);
            out
        };
        match mode {
            PeerMode::Exception(code) => {
                if s.write_all(&reply(0, &[fc | 0x80, code])).await.is_err() {
                    return;
                }
            }
            PeerMode::Silent => {}
            PeerMode::BadResponse => {
                if s.write_all(&reply(0, &[0x2b, 0x00])).await.is_err() {
                    return;
                }
            }
            PeerMode::BadFrame => {
                if s.write_all(&reply(1, &[fc, 0x00])).await.is_err() {
                    return;
                }
            }
            PeerMode::Close => return,
        }
    }
}

pub fn spawn_peer(mode: PeerMode) -> Peer {
    let (port, listener) = hrt().block_on(async {
        for _ in 0..50 {
            let p = free_port();
            if let Ok(l) = tokio::net::TcpListener::bind(("127.0.0.1", p)).await {
                return (p, l);
            }
        }
        panic!("cannot bind a peer listener");
    });
    let task = hrt().spawn(async move {
        loop {
            match listener.accept().await {
                Ok((s, _)) => {
                    tokio::spawn(peer_conn(s, mode));
                }
                Err(_) => return,
            }
        }
    });
    Peer { port, task }
}
