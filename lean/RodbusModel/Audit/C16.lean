import RodbusModel.Props.C16
#print axioms Rodbus.C16.fieldMatches_iff
#print axioms Rodbus.C16.matches_spec
#print axioms Rodbus.C16.star_matches_all_v4
#print axioms Rodbus.C16.wildcard_never_v6
#print axioms Rodbus.C16.getByte_iff
#print axioms Rodbus.C16.parseDigits_le
#print axioms Rodbus.C16.parseU8_le
#print axioms Rodbus.C16.parseU8_nonempty
#print axioms Rodbus.C16.wildcard_parse_iff
#print axioms Rodbus.C16.wrong_field_count_rejected
#print axioms Rodbus.C16.parsed_fields_are_octets
#print axioms Rodbus.C16.splitDots_ne_nil
#print axioms Rodbus.C16.splitDots_join
#print axioms Rodbus.C16.splitDots_no_dot
