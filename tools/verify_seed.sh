#!/bin/bash
# usage: tools/verify_seed.sh <seed name>...   (confirms a seeded change independently)
# In a scratch worktree of /repo (outside /repo and /verif): with the patch the workspace
# compiles, the existing suite passes and the demonstration fails; without it the demo passes.
# Writes seeded/<name>/verified.json.
W=/tmp/vseed
export CARGO_TARGET_DIR=$W/target
if [ ! -d $W ]; then git -C /repo worktree add -q --detach $W HEAD || exit 2; fi
cd $W && git checkout -q --detach $(git -C /repo rev-parse HEAD) && git checkout -q -- . && rm -rf rodbus/tests
for name in "$@"; do
  d=/verif/seeded/$name
  feat=""; grep -q "verif-hooks\|rodbus::verif" $d/demo.rs && feat="--features verif-hooks"
  pkg=rodbus; tdir=rodbus/tests
  if grep -q '"property": "C1[89]"' $d/meta.json || grep -q 'rodbus-ffi' $d/meta.json; then pkg=rodbus-ffi; tdir=ffi/rodbus-ffi/tests; feat=""; fi
  git checkout -q -- . ; rm -rf rodbus/tests ffi/rodbus-ffi/tests
  git apply $d/patch.diff || { echo "{\"applies\": false}" > $d/verified.json; continue; }
  cargo test --workspace --no-fail-fast --offline > $W/suite.log 2>&1; suite_rc=$?
  mkdir -p $tdir && cp $d/demo.rs $tdir/demo.rs
  cargo test -p $pkg --offline $feat --test demo > $W/demo_with.log 2>&1; with_rc=$?
  git checkout -q -- . 
  cargo test -p $pkg --offline $feat --test demo > $W/demo_without.log 2>&1; without_rc=$?
  rm -rf rodbus/tests ffi/rodbus-ffi/tests
  passed=$(grep -h "test result: ok" $W/suite.log | sed 's/.*ok\. \([0-9]*\) passed.*/\1/' | paste -sd+ | bc)
  echo "{\"applies\": true, \"existing_suite_rc_with_patch\": $suite_rc, \"existing_tests_passed_with_patch\": ${passed:-0}, \"demo_rc_with_patch\": $with_rc, \"demo_rc_without_patch\": $without_rc, \"repo_head\": \"$(git -C /repo rev-parse --short HEAD)\"}" > $d/verified.json
  echo "$name: suite_rc=$suite_rc passed=$passed demo_with=$with_rc demo_without=$without_rc"
done
