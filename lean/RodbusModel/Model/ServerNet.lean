import RodbusModel.Model.Tracker
import RodbusModel.Model.Filter
/-
  M10: the accept loop of `tcp::server::ServerTask::run` (tcp/server.rs) at connection level:
  address filter at accept, `SessionTracker` (eviction of the oldest session), session end
  (peer close / framing error), commands (`ChangeDecoding`, `Shutdown`) and handle drop.
  Sessions themselves are M6; here a session is just open or closed.
-/
namespace Rodbus.ServerNet
open Rodbus.Filter Rodbus.Tracker

structure Net where
  tracker : Tracker
  filter : AddressFilter
  /-- plain TCP sessions answer requests; TLS sessions first await a handshake -/
  tls : Bool
  listening : Bool := true
  /-- the user still holds the `ServerHandle` -/
  handle : Bool := true
  /-- connection label ↦ session id while the session is alive -/
  conns : List (Nat × Option Nat) := []
deriving Repr

inductive Step
  | connect (k : Nat) (src : Addr)
  | request (k : Nat)
  | garbage (k : Nat)
  | close (k : Nat)
  | probe (k : Nat)
  | setDecode
  | shutdown
  | dropHandle
deriving Repr

inductive Obs
  | conn (k : Nat) (r : String)
  | req (k : Nat) (r : String)
  | garb (k : Nat) (r : String)
  | prob (k : Nat) (r : String)
  | cmd (name : String) (r : String)
deriving DecidableEq, Repr

def lookup (n : Net) (k : Nat) : Option (Option Nat) :=
  (n.conns.find? (·.1 = k)).map (·.2)

def setConn (n : Net) (k : Nat) (v : Option Nat) : Net :=
  { n with conns := (n.conns.filter (·.1 ≠ k)) ++ [(k, v)] }

/-- sessions whose id is no longer tracked are closed (their command sender was dropped) -/
def sweep (n : Net) : Net :=
  { n with conns := n.conns.map fun (k, v) =>
      match v with
      | some id => if n.tracker.ids.contains id then (k, some id) else (k, none)
      | none => (k, none) }

def isOpen (n : Net) (k : Nat) : Bool :=
  match lookup n k with
  | some (some _) => true
  | _ => false

/-- the session of connection `k` ends (peer closed, framing error): its id is removed -/
def endSession (n : Net) (k : Nat) : Net :=
  match lookup n k with
  | some (some id) => setConn { n with tracker := Tracker.remove n.tracker id } k none
  | _ => n

def step (n : Net) : Step → Net × List Obs
  | .connect k src =>
    if !n.listening then (n, [.conn k "refused"])
    else if n.filter.matches src then
      let (id, t) := Tracker.add n.tracker
      (sweep (setConn { n with tracker := t } k (some id)), [.conn k "open"])
    else (setConn n k none, [.conn k "closed"])
  | .request k =>
    match lookup n k with
    | none => (n, [.req k "noconn"])
    | some _ => (n, [.req k (if isOpen n k && !n.tls then "ok.982" else "closed")])
  | .garbage k =>
    match lookup n k with
    | none => (n, [.garb k "noconn"])
    | some _ =>
      -- a TLS acceptor answers garbage with an alert before closing
      (endSession n k, [.garb k (if n.tls && isOpen n k then "data" else "closed")])
  | .close k => ({ (endSession n k) with conns := (endSession n k).conns.filter (·.1 ≠ k) }, [])
  | .probe k =>
    match lookup n k with
    | none => (n, [.prob k "noconn"])
    | some _ => (n, [.prob k (if isOpen n k then "open" else "closed")])
  | .setDecode =>
    if n.handle then (n, [.cmd "L" (if n.listening then "ok" else "shutdown")]) else (n, [])
  | .shutdown =>
    if n.handle then
      ({ n with listening := false, conns := n.conns.map fun (k, _) => (k, none),
                tracker := { n.tracker with ids := [] } },
       [.cmd "S" (if n.listening then "ok" else "shutdown")])
    else (n, [])
  | .dropHandle =>
    ({ n with listening := false, handle := false, conns := n.conns.map fun (k, _) => (k, none),
              tracker := { n.tracker with ids := [] } }, [])

def run : Net → List Step → Net × List Obs
  | n, [] => (n, [])
  | n, s :: rest =>
    let (n', o) := step n s
    let (n'', os) := run n' rest
    (n'', o ++ os)

end Rodbus.ServerNet
