import RodbusModel.Spec.Lifecycle
import RodbusModel.Props.C14
/-
  Helper definitions and lemmas for C13 (client connection life-cycle) and the task-level half of
  C14.  Nothing in `Model/Lifecycle.lean` is changed: `step` is a non-recursive copy of one
  iteration of `advance`, tied to it by `advance_succ`.
-/
namespace Rodbus.Life
open Rodbus.Spec.Life

/-! ## one iteration of `advance` (`step`, `Res`, `flush` are part of the model) -/

@[simp] theorem fails_refuse : Behaviour.fails .refuse = true := rfl
@[simp] theorem fails_hsfail : Behaviour.fails .hsfail = true := rfl
@[simp] theorem fails_close : Behaviour.fails .close = false := rfl
@[simp] theorem fails_garbage : Behaviour.fails .garbage = false := rfl
@[simp] theorem fails_silent : Behaviour.fails .silent = false := rfl
@[simp] theorem fails_serve : Behaviour.fails .serve = false := rfl
@[simp] theorem fails_serveN (k : Nat) (w : Bool) : Behaviour.fails (.serveN k w) = false := rfl

@[simp] theorem gone_refuse (n : Nat) : Behaviour.gone .refuse n = false := rfl
@[simp] theorem gone_hsfail (n : Nat) : Behaviour.gone .hsfail n = false := rfl
@[simp] theorem gone_close (n : Nat) : Behaviour.gone .close n = true := rfl
@[simp] theorem gone_garbage (n : Nat) : Behaviour.gone .garbage n = true := rfl
@[simp] theorem gone_silent (n : Nat) : Behaviour.gone .silent n = false := rfl
@[simp] theorem gone_serve (n : Nat) : Behaviour.gone .serve n = false := rfl
@[simp] theorem gone_serveN_wait (k n : Nat) : Behaviour.gone (.serveN k true) n = false := rfl
@[simp] theorem gone_serveN (k n : Nat) : Behaviour.gone (.serveN k false) n = decide (k ≤ n) := rfl
@[simp] theorem dropsNext_refuse (n : Nat) : Behaviour.dropsNext .refuse n = false := rfl
@[simp] theorem dropsNext_hsfail (n : Nat) : Behaviour.dropsNext .hsfail n = false := rfl
@[simp] theorem dropsNext_close (n : Nat) : Behaviour.dropsNext .close n = false := rfl
@[simp] theorem dropsNext_garbage (n : Nat) : Behaviour.dropsNext .garbage n = false := rfl
@[simp] theorem dropsNext_silent (n : Nat) : Behaviour.dropsNext .silent n = false := rfl
@[simp] theorem dropsNext_serve (n : Nat) : Behaviour.dropsNext .serve n = false := rfl
@[simp] theorem dropsNext_serveN (k n : Nat) : Behaviour.dropsNext (.serveN k false) n = false := rfl
@[simp] theorem dropsNext_serveN_wait (k n : Nat) :
    Behaviour.dropsNext (.serveN k true) n = decide (k ≤ n) := rfl

@[simp] theorem lost_eq (s : S) :
    lost s = .halt s.closeConn (.gate (.waitDisc (Retry.afterDisconnect s.retry)) .failFor) := rfl

theorem advance_zero (ph : Phase) (s : S) : advance 0 ph s = (s, .idle ph) := rfl

theorem advance_succ (fuel : Nat) (ph : Phase) (s : S) :
    advance (fuel + 1) ph s = (step ph s).fin (advance fuel) := rfl

/-- `P` on continuations, `Q` on results -/
def Res.sat (P : Phase → S → Prop) (Q : S → Pos → Prop) : Res → Prop
  | .cont ph s => P ph s
  | .halt s pos => Q s pos

@[simp] theorem Res.sat_cont {P Q ph s} : (Res.cont ph s).sat P Q = P ph s := rfl
@[simp] theorem Res.sat_halt {P Q s pos} : (Res.halt s pos).sat P Q = Q s pos := rfl

/-- invariant principle: `P` holds at every iteration, `Q` at the blocking point -/
theorem advance_inv {P : Phase → S → Prop} {Q : S → Pos → Prop}
    (hidle : ∀ ph s, P ph s → Q s (.idle ph))
    (hstep : ∀ ph s, P ph s → (step ph s).sat P Q) :
    ∀ fuel ph s, P ph s → Q (advance fuel ph s).1 (advance fuel ph s).2 := by
  intro fuel
  induction fuel with
  | zero => intro ph s h; exact hidle ph s h
  | succ fuel ih =>
    intro ph s h
    rw [advance_succ]
    have := hstep ph s h
    cases hs : step ph s with
    | cont ph' s' => rw [hs] at this; exact ih ph' s' this
    | halt s' pos => rw [hs] at this; exact this

def Res.state : Res → S
  | .cont _ s => s
  | .halt s _ => s

@[simp] theorem Res.state_cont {ph s} : (Res.cont ph s).state = s := rfl
@[simp] theorem Res.state_halt {s pos} : (Res.halt s pos).state = s := rfl

/-- relational principle: a reflexive-transitive relation that every iteration respects -/
theorem advance_rel {R : S → S → Prop} (hrefl : ∀ s, R s s)
    (htrans : ∀ a b c, R a b → R b c → R a c)
    (hstep : ∀ ph s, R s (step ph s).state) :
    ∀ fuel ph s, R s (advance fuel ph s).1 := by
  intro fuel
  induction fuel with
  | zero => intro ph s; exact hrefl s
  | succ fuel ih =>
    intro ph s
    rw [advance_succ]
    have := hstep ph s
    cases hs : step ph s with
    | cont ph' s' => rw [hs] at this; exact htrans _ _ _ this (ih ph' s')
    | halt s' pos => rw [hs] at this; exact this

/-! ## the announced states -/

@[simp] theorem states_nil : states [] = [] := rfl

@[simp] theorem states_append (a b : List Ev) : states (a ++ b) = states a ++ states b := by
  simp [states, List.filterMap_append]

@[simp] theorem states_gate (st : St) : states [.gate st] = [st] := rfl
@[simp] theorem states_idle : states [.idle] = [] := rfl
@[simp] theorem states_act (a : Action) : states [.act a] = [] := rfl
@[simp] theorem states_done (id : Nat) (r : String) : states [.done id r] = [] := rfl

@[simp] theorem emit_log (s : S) (e : Ev) : (s.emit e).log = s.log ++ [e] := rfl
@[simp] theorem emit_enabled (s : S) (e : Ev) : (s.emit e).enabled = s.enabled := rfl
@[simp] theorem emit_queue (s : S) (e : Ev) : (s.emit e).queue = s.queue := rfl
@[simp] theorem emit_handles (s : S) (e : Ev) : (s.emit e).handles = s.handles := rfl
@[simp] theorem emit_retry (s : S) (e : Ev) : (s.emit e).retry = s.retry := rfl
@[simp] theorem emit_behaviours (s : S) (e : Ev) : (s.emit e).behaviours = s.behaviours := rfl
@[simp] theorem emit_cur (s : S) (e : Ev) : (s.emit e).cur = s.cur := rfl
@[simp] theorem emit_maxto (s : S) (e : Ev) : (s.emit e).maxto = s.maxto := rfl
@[simp] theorem emit_tcount (s : S) (e : Ev) : (s.emit e).tcount = s.tcount := rfl
@[simp] theorem emit_alive (s : S) (e : Ev) : (s.emit e).alive = s.alive := rfl
@[simp] theorem emit_decode (s : S) (e : Ev) : (s.emit e).decode = s.decode := rfl
@[simp] theorem emit_conn (s : S) (e : Ev) : (s.emit e).conn = s.conn := rfl
@[simp] theorem emit_unreported (s : S) (e : Ev) : (s.emit e).unreported = s.unreported := rfl
@[simp] theorem emit_served (s : S) (e : Ev) : (s.emit e).served = s.served := rfl
@[simp] theorem emit_coins (s : S) (e : Ev) : (s.emit e).coins = s.coins := rfl
@[simp] theorem emit_starved (s : S) (e : Ev) : (s.emit e).starved = s.starved := rfl

@[simp] theorem states_closed : states [.closed] = [] := rfl
@[simp] theorem states_refused (a : Action) : states [.refused a] = [] := rfl

@[simp] theorem closeConn_log (s : S) : s.closeConn.log = s.log := rfl
@[simp] theorem closeConn_enabled (s : S) : s.closeConn.enabled = s.enabled := rfl
@[simp] theorem closeConn_queue (s : S) : s.closeConn.queue = s.queue := rfl
@[simp] theorem closeConn_handles (s : S) : s.closeConn.handles = s.handles := rfl
@[simp] theorem closeConn_retry (s : S) : s.closeConn.retry = s.retry := rfl
@[simp] theorem closeConn_behaviours (s : S) : s.closeConn.behaviours = s.behaviours := rfl
@[simp] theorem closeConn_cur (s : S) : s.closeConn.cur = s.cur := rfl
@[simp] theorem closeConn_maxto (s : S) : s.closeConn.maxto = s.maxto := rfl
@[simp] theorem closeConn_tcount (s : S) : s.closeConn.tcount = s.tcount := rfl
@[simp] theorem closeConn_alive (s : S) : s.closeConn.alive = s.alive := rfl
@[simp] theorem closeConn_decode (s : S) : s.closeConn.decode = s.decode := rfl
@[simp] theorem closeConn_conn (s : S) : s.closeConn.conn = false := rfl
@[simp] theorem closeConn_unreported (s : S) : s.closeConn.unreported = true := rfl
@[simp] theorem closeConn_served (s : S) : s.closeConn.served = s.served := rfl
@[simp] theorem closeConn_coins (s : S) : s.closeConn.coins = s.coins := rfl
@[simp] theorem closeConn_starved (s : S) : s.closeConn.starved = s.starved := rfl

@[simp] theorem coinPop_log (s : S) : s.coinPop.log = s.log := rfl
@[simp] theorem coinPop_enabled (s : S) : s.coinPop.enabled = s.enabled := rfl
@[simp] theorem coinPop_queue (s : S) : s.coinPop.queue = s.queue := rfl
@[simp] theorem coinPop_handles (s : S) : s.coinPop.handles = s.handles := rfl
@[simp] theorem coinPop_retry (s : S) : s.coinPop.retry = s.retry := rfl
@[simp] theorem coinPop_behaviours (s : S) : s.coinPop.behaviours = s.behaviours := rfl
@[simp] theorem coinPop_cur (s : S) : s.coinPop.cur = s.cur := rfl
@[simp] theorem coinPop_maxto (s : S) : s.coinPop.maxto = s.maxto := rfl
@[simp] theorem coinPop_tcount (s : S) : s.coinPop.tcount = s.tcount := rfl
@[simp] theorem coinPop_alive (s : S) : s.coinPop.alive = s.alive := rfl
@[simp] theorem coinPop_decode (s : S) : s.coinPop.decode = s.decode := rfl
@[simp] theorem coinPop_conn (s : S) : s.coinPop.conn = s.conn := rfl
@[simp] theorem coinPop_unreported (s : S) : s.coinPop.unreported = s.unreported := rfl
@[simp] theorem coinPop_served (s : S) : s.coinPop.served = s.served := rfl

theorem report_of_false (s : S) (h : s.unreported = false) : s.report = s := by
  simp [S.report, h]

@[simp] theorem report_states (s : S) : states s.report.log = states s.log := by
  unfold S.report; split <;> simp
@[simp] theorem report_enabled (s : S) : s.report.enabled = s.enabled := by
  unfold S.report; split <;> rfl
@[simp] theorem report_queue (s : S) : s.report.queue = s.queue := by
  unfold S.report; split <;> rfl
@[simp] theorem report_handles (s : S) : s.report.handles = s.handles := by
  unfold S.report; split <;> rfl
@[simp] theorem report_retry (s : S) : s.report.retry = s.retry := by
  unfold S.report; split <;> rfl
@[simp] theorem report_behaviours (s : S) : s.report.behaviours = s.behaviours := by
  unfold S.report; split <;> rfl
@[simp] theorem report_cur (s : S) : s.report.cur = s.cur := by
  unfold S.report; split <;> rfl
@[simp] theorem report_maxto (s : S) : s.report.maxto = s.maxto := by
  unfold S.report; split <;> rfl
@[simp] theorem report_tcount (s : S) : s.report.tcount = s.tcount := by
  unfold S.report; split <;> rfl
@[simp] theorem report_alive (s : S) : s.report.alive = s.alive := by
  unfold S.report; split <;> rfl
@[simp] theorem report_decode (s : S) : s.report.decode = s.decode := by
  unfold S.report; split <;> rfl
@[simp] theorem report_conn (s : S) : s.report.conn = s.conn := by
  unfold S.report; split <;> rfl
@[simp] theorem report_served (s : S) : s.report.served = s.served := by
  unfold S.report; split <;> rfl
@[simp] theorem report_coins (s : S) : s.report.coins = s.coins := by
  unfold S.report; split <;> rfl
@[simp] theorem report_starved (s : S) : s.report.starved = s.starved := by
  unfold S.report; split <;> rfl
@[simp] theorem report_unreported (s : S) : s.report.unreported = false := by
  unfold S.report; split <;> simp_all

/-- the part of the state the flush at task end leaves alone -/
theorem flush_aux (q : List Cmd) (s : S) :
    let s' := q.foldl (fun s c => match c with
      | .request id => s.emit (.done id "shutdown")
      | _ => s) s
    states s'.log = states s.log ∧ s'.enabled = s.enabled ∧ s'.handles = s.handles ∧
      s'.retry = s.retry ∧ s'.maxto = s.maxto ∧ s'.queue = s.queue ∧ s'.alive = s.alive := by
  induction q generalizing s with
  | nil => simp
  | cons c q ih =>
    simp only [List.foldl_cons]
    cases c <;> simp_all

theorem flush_states (s : S) : states (flush s).log = states s.log := (flush_aux s.queue s).1

theorem nextBehaviour_fst_snd (s : S) :
    (nextBehaviour s).2.enabled = s.enabled ∧ (nextBehaviour s).2.queue = s.queue ∧
    (nextBehaviour s).2.handles = s.handles ∧ (nextBehaviour s).2.retry = s.retry ∧
    (nextBehaviour s).2.maxto = s.maxto ∧ (nextBehaviour s).2.tcount = s.tcount ∧
    (nextBehaviour s).2.alive = s.alive ∧ (nextBehaviour s).2.log = s.log ∧
    (nextBehaviour s).2.cur = s.cur := by
  unfold nextBehaviour
  split <;> simp

@[simp] theorem nb_enabled (s : S) : (nextBehaviour s).2.enabled = s.enabled := (nextBehaviour_fst_snd s).1
@[simp] theorem nb_queue (s : S) : (nextBehaviour s).2.queue = s.queue := (nextBehaviour_fst_snd s).2.1
@[simp] theorem nb_handles (s : S) : (nextBehaviour s).2.handles = s.handles := (nextBehaviour_fst_snd s).2.2.1
@[simp] theorem nb_retry (s : S) : (nextBehaviour s).2.retry = s.retry := (nextBehaviour_fst_snd s).2.2.2.1
@[simp] theorem nb_maxto (s : S) : (nextBehaviour s).2.maxto = s.maxto := (nextBehaviour_fst_snd s).2.2.2.2.1
@[simp] theorem nb_tcount (s : S) : (nextBehaviour s).2.tcount = s.tcount := (nextBehaviour_fst_snd s).2.2.2.2.2.1
@[simp] theorem nb_alive (s : S) : (nextBehaviour s).2.alive = s.alive := (nextBehaviour_fst_snd s).2.2.2.2.2.2.1
@[simp] theorem nb_log (s : S) : (nextBehaviour s).2.log = s.log := (nextBehaviour_fst_snd s).2.2.2.2.2.2.2.1

/-- `advance` announces nothing itself: gate events are appended by `stop` -/
theorem advance_states (fuel : Nat) (ph : Phase) (s : S) :
    states (advance fuel ph s).1.log = states s.log := by
  refine advance_rel (R := fun s s' => states s'.log = states s.log) (fun _ => rfl)
    (fun a b c h1 h2 => h2.trans h1) ?_ fuel ph s
  intro ph s
  unfold step
  repeat' split
  all_goals simp [flush_states]


/-! ## legal paths -/

theorem legalPath_append_one (ss : List St) (x : St) :
    legalPath (ss ++ [x]) =
      (legalPath ss && (match ss.getLast? with | none => true | some l => legalNext l x)) := by
  induction ss with
  | nil => simp [legalPath]
  | cons a t ih =>
    cases t with
    | nil => simp [legalPath]
    | cons b u =>
      have : (a :: b :: u) ++ [x] = a :: b :: (u ++ [x]) := rfl
      rw [this, legalPath, legalPath]
      have ih' : legalPath (b :: (u ++ [x])) = _ := ih
      rw [ih']
      simp [List.getLast?_cons_cons, Bool.and_assoc]

theorem legalNext_shutdown_left (x : St) : legalNext .shutdown x = false := by
  cases x <;> rfl

/-- on a legal path `Shutdown` has no successor -/
theorem legalPath_shutdown_last : ∀ (ss : List St), legalPath ss = true →
    ss.count .shutdown ≤ 1 ∧ (ss.all (· ≠ .shutdown) = true ∨ ss.getLast? = some .shutdown)
  | [], _ => by simp
  | [a], _ => by
    by_cases h : a = .shutdown
    · subst h; simp
    · constructor
      · simp [h]
      · left; simpa using h
  | a :: b :: rest, h => by
    rw [legalPath, Bool.and_eq_true] at h
    have ih := legalPath_shutdown_last (b :: rest) h.2
    have ha : a ≠ .shutdown := by
      intro e; rw [e, legalNext_shutdown_left] at h; exact absurd h.1 (by decide)
    constructor
    · rw [List.count_cons_of_ne ha]
      exact ih.1
    · rcases ih.2 with h1 | h1
      · left
        rw [List.all_cons, h1]
        simpa using ha
      · right
        rw [List.getLast?_cons_cons]; exact h1

/-- what `legalLog` amounts to -/
theorem legalLog_of (log : List Ev)
    (hhead : (states log).head? = some .disabled ∨ states log = [])
    (hpath : legalPath (states log) = true) : legalLog log = true := by
  have := legalPath_shutdown_last _ hpath
  unfold legalLog
  simp only [Bool.and_eq_true, Bool.or_eq_true, decide_eq_true_eq]
  refine ⟨⟨⟨?_, hpath⟩, this.1⟩, ?_⟩
  · rcases hhead with h | h
    · left; rw [h]; rfl
    · right; rw [h]; rfl
  · rcases this.2 with h | h
    · left; exact h
    · right; rw [h]; rfl


/-! ## the well-formedness invariant -/

/-- last announced state vs. phase -/
def phaseOk (l : St) : Phase → Bool
  | .waitEnabled => match l with | .disabled | .waitFail _ | .waitDisc _ => true | _ => false
  | .connect => match l with | .connecting => true | _ => false
  | .sessionStart b | .session b => (match l with | .connected => true | _ => false) && !b.fails
  | .failFor => match l with | .waitFail _ | .waitDisc _ => true | _ => false
  | .afterDisable =>
    match l with | .connecting | .connected | .waitFail _ | .waitDisc _ => true | _ => false
  | .finished => match l with | .shutdown => true | _ => false

/-- phases in which the task holds (or is establishing, or is waiting to re-establish) a connection -/
def needsEnabled : Phase → Bool
  | .connect | .sessionStart _ | .session _ | .failFor => true
  | _ => false

/-- invariant at an iteration of `advance`; `l` is the state announced last -/
def PhaseInv (l : St) (ph : Phase) (s : S) : Prop :=
  phaseOk l ph = true ∧ (needsEnabled ph = true → s.enabled = true) ∧
  (ph = .afterDisable → s.enabled = false) ∧ s.alive = true

/-- invariant at a blocking point; `l` is the state announced last (`none` at the start) -/
def PosInv (l : Option St) (s : S) : Pos → Prop
  | .gate st next =>
    (match l with | none => st = .disabled | some l' => legalNext l' st = true) ∧
    PhaseInv st next s ∧ (st = .disabled → s.enabled = false) ∧
    (st = .connecting → s.enabled = true) ∧ (st = .connected → s.queue = [])
  | .idle ph => ∃ l', l = some l' ∧ PhaseInv l' ph s
  | .done => l = some .shutdown ∧ s.alive = false ∧ s.queue = []

theorem step_inv (l : St) (ph : Phase) (s : S) (h : PhaseInv l ph s) :
    (step ph s).sat (PhaseInv l) (PosInv (some l)) := by
  unfold step
  cases l <;> cases ph <;> simp [PhaseInv, phaseOk] at h
  all_goals (simp only []; repeat' split)
  all_goals simp_all [PosInv, PhaseInv, phaseOk, needsEnabled, legalNext]


theorem advance_posInv (l : St) (fuel : Nat) (ph : Phase) (s : S) (h : PhaseInv l ph s) :
    PosInv (some l) (advance fuel ph s).1 (advance fuel ph s).2 :=
  advance_inv (P := PhaseInv l) (Q := PosInv (some l))
    (fun _ _ h => ⟨l, rfl, h⟩) (step_inv l) fuel ph s h

theorem PhaseInv.congr {l ph} {s s' : S} (he : s'.enabled = s.enabled) (ha : s'.alive = s.alive)
    (h : PhaseInv l ph s) : PhaseInv l ph s' := by
  unfold PhaseInv at *
  rw [he, ha]; exact h

/-! ## the environment -/

/-- what user actions cannot touch -/
def Frame (s s' : S) : Prop :=
  states s'.log = states s.log ∧ s'.enabled = s.enabled ∧ s'.alive = s.alive ∧
  s'.retry = s.retry ∧ s'.cur = s.cur ∧ s'.behaviours = s.behaviours ∧ s'.maxto = s.maxto ∧
  s'.tcount = s.tcount ∧ s'.conn = s.conn ∧ s'.unreported = s.unreported ∧ s'.served = s.served ∧
  s'.coins = s.coins ∧ s'.decode = s.decode ∧ s'.starved = s.starved

theorem applyAction_frame (s : S) (a : Action) : Frame s (applyAction s a) := by
  unfold applyAction Frame
  split
  · simp
  · cases a <;> simp

theorem foldl_applyAction_frame (acts : List Action) (s : S) :
    Frame s (acts.foldl applyAction s) := by
  induction acts generalizing s with
  | nil => simp [Frame]
  | cons a acts ih =>
    have h1 := applyAction_frame s a
    have h2 := ih (applyAction s a)
    simp only [List.foldl_cons]
    unfold Frame at *
    simp_all

/-- what actions on the handles of the ended task cannot touch: everything but the log (where
    they announce nothing) and the handles -/
def DoneFrame (s s' : S) : Prop :=
  states s'.log = states s.log ∧ s'.enabled = s.enabled ∧ s'.alive = s.alive ∧
  s'.retry = s.retry ∧ s'.cur = s.cur ∧ s'.behaviours = s.behaviours ∧ s'.maxto = s.maxto ∧
  s'.tcount = s.tcount ∧ s'.queue = s.queue ∧ s'.conn = s.conn ∧ s'.unreported = s.unreported ∧
  s'.served = s.served ∧ s'.coins = s.coins ∧ s'.decode = s.decode

theorem applyDone_frame (s : S) (a : Action) : DoneFrame s (applyDone s a) := by
  unfold applyDone DoneFrame
  split
  · simp
  · cases a <;> simp [states]

theorem foldl_applyDone_frame (acts : List Action) (s : S) :
    DoneFrame s (acts.foldl applyDone s) := by
  induction acts generalizing s with
  | nil => simp [DoneFrame]
  | cons a acts ih =>
    have h1 := applyDone_frame s a
    have h2 := ih (applyDone s a)
    simp only [List.foldl_cons]
    unfold DoneFrame at *
    simp_all

/-! ## runs -/

/-- the initial task state of a full run -/
def Initial (s0 : S) : Prop :=
  s0.enabled = false ∧ s0.queue = [] ∧ s0.handles = true ∧ s0.log = [] ∧ s0.alive = true ∧
  s0.tcount = 0 ∧ s0.conn = false ∧ s0.unreported = false

/-- a full run: `start`, then the script of stops -/
def run (s0 : S) (script : List (List Action)) : S × Pos :=
  runStops (start s0).1 (start s0).2 script

/-- invariant of a run, at every stop -/
def RunInv (s : S) (pos : Pos) : Prop :=
  ((states s.log).head? = some .disabled ∨ states s.log = []) ∧
  legalPath (states s.log) = true ∧ PosInv (states s.log).getLast? s pos

theorem runInv_start (s0 : S) (h : Initial s0) : RunInv (start s0).1 (start s0).2 := by
  obtain ⟨h1, _, _, h4, h5, _⟩ := h
  simp [RunInv, start, h4, legalPath, PosInv, PhaseInv, phaseOk, needsEnabled, h1, h5]

theorem stop_runInv (s : S) (pos : Pos) (acts : List Action) (h : RunInv s pos) :
    RunInv (stop s pos acts).1 (stop s pos acts).2 := by
  obtain ⟨hhead, hpath, hpos⟩ := h
  cases pos with
  | done =>
    have hf := foldl_applyDone_frame acts s
    simp only [stop]
    generalize acts.foldl applyDone s = s2 at hf
    obtain ⟨hf1, _, hf3, _, _, _, _, _, hf9, _⟩ := hf
    refine ⟨by rw [hf1]; exact hhead, by rw [hf1]; exact hpath, ?_⟩
    rw [hf1]
    exact ⟨hpos.1, by rw [hf3]; exact hpos.2.1, by rw [hf9]; exact hpos.2.2⟩
  | gate st next =>
    obtain ⟨hleg, hph, _⟩ := hpos
    simp only [stop]
    have hf := foldl_applyAction_frame acts (s.report.emit (.gate st))
    generalize acts.foldl applyAction (s.report.emit (.gate st)) = s2 at hf
    obtain ⟨hf1, hf2, hf3, _⟩ := hf
    have hst : states (advance (fuelFor s2) next s2).1.log = states s.log ++ [st] := by
      rw [advance_states, hf1]; simp
    refine ⟨?_, ?_, ?_⟩
    · rw [hst]
      cases hss : states s.log with
      | nil => rw [hss] at hleg; simp at hleg; simp [hleg]
      | cons a t => rw [hss] at hhead; simpa using hhead
    · rw [hst, legalPath_append_one, hpath]
      cases hl : (states s.log).getLast? with
      | none => simp
      | some l => rw [hl] at hleg; simpa using hleg
    · rw [hst]
      have : (states s.log ++ [st]).getLast? = some st := by simp
      rw [this]
      exact advance_posInv st _ next s2 (hph.congr (by rw [hf2]; simp) (by rw [hf3]; simp))
  | idle ph =>
    obtain ⟨l, hl, hph⟩ := hpos
    simp only [stop]
    have hf := foldl_applyAction_frame acts (s.emit .idle)
    generalize acts.foldl applyAction (s.emit .idle) = s2 at hf
    obtain ⟨hf1, hf2, hf3, _⟩ := hf
    have hst : states (advance (fuelFor s2) ph s2).1.log = states s.log := by
      rw [advance_states, hf1]; simp
    refine ⟨by rw [hst]; exact hhead, by rw [hst]; exact hpath, ?_⟩
    rw [hst, hl]
    exact advance_posInv l _ ph s2 (hph.congr hf2 hf3)

theorem runStops_done_pos (script : List (List Action)) (s : S) :
    (runStops s .done script).2 = .done := by
  induction script generalizing s with
  | nil => rfl
  | cons acts rest ih => exact ih _

theorem runStops_cons (s : S) (pos : Pos) (acts : List Action) (rest : List (List Action)) :
    runStops s pos (acts :: rest) = runStops (stop s pos acts).1 (stop s pos acts).2 rest := by
  rfl

theorem runStops_append (s : S) (pos : Pos) (a b : List (List Action)) :
    runStops s pos (a ++ b) = runStops (runStops s pos a).1 (runStops s pos a).2 b := by
  induction a generalizing s pos with
  | nil => simp [runStops]
  | cons x a ih => simp only [List.cons_append, runStops_cons]; exact ih _ _

theorem runStops_runInv (script : List (List Action)) (s : S) (pos : Pos) (h : RunInv s pos) :
    RunInv (runStops s pos script).1 (runStops s pos script).2 := by
  induction script generalizing s pos with
  | nil => simpa [runStops] using h
  | cons acts rest ih =>
    rw [runStops_cons]
    exact ih _ _ (stop_runInv s pos acts h)

/-- the positions a full run can be in -/
def Reachable (s : S) (pos : Pos) : Prop :=
  ∃ s0 script, Initial s0 ∧ run s0 script = (s, pos)

theorem Reachable.runInv {s pos} (h : Reachable s pos) : RunInv s pos := by
  obtain ⟨s0, script, hi, hr⟩ := h
  have := runStops_runInv script _ _ (runInv_start s0 hi)
  unfold run at hr
  rw [hr] at this
  exact this

theorem Reachable.runStops {s pos} (h : Reachable s pos) (script : List (List Action)) :
    Reachable (runStops s pos script).1 (runStops s pos script).2 := by
  obtain ⟨s0, sc, hi, hr⟩ := h
  refine ⟨s0, sc ++ script, hi, ?_⟩
  unfold run at *
  rw [runStops_append, hr]

theorem RunInv.legalLog {s pos} (h : RunInv s pos) : legalLog s.log = true :=
  legalLog_of s.log h.1 h.2.1


/-! ## simple facts about every call of `advance` -/

/-- `Connecting` is only ever announced with the enabled flag set; `Connected` only with an empty
    command queue; `Disabled` after a disable only with the flag cleared -/
theorem advance_gate_facts (fuel : Nat) (ph : Phase) (s : S) :
    ∀ st next, (advance fuel ph s).2 = .gate st next →
      (st = .connecting → (advance fuel ph s).1.enabled = true ∧ next = .connect) ∧
      (st = .connected → (advance fuel ph s).1.queue = [] ∧
        ∃ b, next = .sessionStart b ∧ b.fails = false) := by
  refine advance_inv (P := fun _ _ => True)
    (Q := fun s pos => ∀ st next, pos = .gate st next →
      (st = .connecting → s.enabled = true ∧ next = .connect) ∧
      (st = .connected → s.queue = [] ∧ ∃ b, next = .sessionStart b ∧ b.fails = false))
    (fun _ _ _ => by simp) ?_ fuel ph s trivial
  intro ph s _
  unfold step
  repeat' split
  all_goals simp_all

/-! ## failing requests while not connected -/

/-- the completions produced for a consumed stretch of the queue while not connected -/
def noconnEvents (q : List Cmd) : List Ev :=
  q.filterMap fun c => match c with | .request id => some (.done id "noconn") | _ => none

@[simp] theorem noconnEvents_nil : noconnEvents [] = [] := rfl
@[simp] theorem noconnEvents_request (id : Nat) (q : List Cmd) :
    noconnEvents (.request id :: q) = .done id "noconn" :: noconnEvents q := rfl
@[simp] theorem noconnEvents_enable (q : List Cmd) : noconnEvents (.enable :: q) = noconnEvents q := rfl
@[simp] theorem noconnEvents_disable (q : List Cmd) : noconnEvents (.disable :: q) = noconnEvents q := rfl
@[simp] theorem noconnEvents_shutdown (q : List Cmd) : noconnEvents (.shutdown :: q) = noconnEvents q := rfl
@[simp] theorem noconnEvents_decode (l : Nat) (q : List Cmd) : noconnEvents (.decode l :: q) = noconnEvents q := rfl
theorem noconnEvents_append (a b : List Cmd) :
    noconnEvents (a ++ b) = noconnEvents a ++ noconnEvents b := by
  simp [noconnEvents, List.filterMap_append]

theorem mem_noconnEvents (id : Nat) (q : List Cmd) (h : Cmd.request id ∈ q) :
    Ev.done id "noconn" ∈ noconnEvents q := by
  simp only [noconnEvents, List.mem_filterMap]
  exact ⟨_, h, rfl⟩

/-- the phases in which the task has no connection -/
def notConnected : Phase → Bool
  | .waitEnabled | .connect | .failFor | .afterDisable => true
  | _ => false

/-- `s'` is `s` after consuming a prefix of the queue, every request in it failed with noconn -/
def Consumed (s s' : S) : Prop :=
  ∃ consumed, s.queue = consumed ++ s'.queue ∧ s'.log = s.log ++ noconnEvents consumed

theorem Consumed.refl (s : S) : Consumed s s := ⟨[], by simp⟩

theorem Consumed.trans {a b c : S} (h1 : Consumed a b) (h2 : Consumed b c) : Consumed a c := by
  obtain ⟨c1, q1, l1⟩ := h1
  obtain ⟨c2, q2, l2⟩ := h2
  exact ⟨c1 ++ c2, by rw [q1, q2, List.append_assoc], by
    rw [l2, l1, noconnEvents_append, List.append_assoc]⟩

theorem Consumed.of_cons {s s' : S} (c : Cmd) (hq : s.queue = c :: s'.queue)
    (hl : s'.log = s.log ++ noconnEvents [c]) : Consumed s s' := ⟨[c], by simp [hq], hl⟩

theorem step_consumed (ph : Phase) (s : S) (h : notConnected ph = true) :
    (step ph s).sat (fun ph' s' => notConnected ph' = true ∧ Consumed s s') (fun s' _ => Consumed s s') := by
  unfold step
  cases ph <;> simp [notConnected] at h
  all_goals (simp only []; repeat' split)
  all_goals first
    | exact Consumed.refl _
    | exact ⟨rfl, Consumed.refl _⟩
    | (refine Consumed.of_cons _ ‹_› ?_; simp [noconnEvents]; done)
    | (refine ⟨rfl, Consumed.of_cons _ ‹_› ?_⟩; simp [noconnEvents]; done)
    | (refine ⟨[], ?_, ?_⟩ <;> simp <;> done)

theorem advance_consumed (fuel : Nat) : ∀ (ph : Phase) (s : S), notConnected ph = true →
    Consumed s (advance fuel ph s).1 := by
  induction fuel with
  | zero => intro ph s _; exact Consumed.refl s
  | succ fuel ih =>
    intro ph s h
    rw [advance_succ]
    have := step_consumed ph s h
    cases hs : step ph s with
    | cont ph' s' => rw [hs] at this; exact this.2.trans (ih ph' s' this.1)
    | halt s' pos => rw [hs] at this; exact this


/-- gates at which the task is blocked inside the listener callback because a command (or the
    retry timer, or the loss of all handles) changed the channel state; the rest of the queue is
    untouched and is looked at again as soon as the callback returns -/
def changeGate : Pos → Bool
  | .gate .disabled .waitEnabled | .gate .connecting .connect | .gate .shutdown .finished => true
  | _ => false

/-- iterations needed beyond one per queued command -/
def slack : Phase → Nat
  | .failFor => 2
  | _ => 1

theorem step_drained (ph : Phase) (s : S) (h : notConnected ph = true) :
    (step ph s).sat
      (fun ph' s' => notConnected ph' = true ∧ s'.queue.length + slack ph' + 1 ≤ s.queue.length + slack ph)
      (fun s' pos => changeGate pos = true ∨ s'.queue = []) := by
  unfold step
  cases ph <;> simp [notConnected] at h
  all_goals (simp only []; repeat' split)
  all_goals simp_all [changeGate, slack, notConnected]

/-- with one unit of fuel per queued command (plus `slack`), a call of `advance` that starts while
    not connected ends with an empty queue or at a state-change gate -/
theorem advance_drained (fuel : Nat) : ∀ (ph : Phase) (s : S), notConnected ph = true →
    s.queue.length + slack ph ≤ fuel →
    changeGate (advance fuel ph s).2 = true ∨ (advance fuel ph s).1.queue = [] := by
  induction fuel with
  | zero => intro ph s _ hf; cases ph <;> simp [slack] at hf
  | succ fuel ih =>
    intro ph s h hf
    rw [advance_succ]
    have := step_drained ph s h
    cases hs : step ph s with
    | cont ph' s' =>
      rw [hs] at this
      exact ih ph' s' this.1 (by have := this.2; omega)
    | halt s' pos => rw [hs] at this; exact this


/-- commands that do not change the channel state while it is enabled -/
def benign : Cmd → Bool
  | .request _ | .enable | .decode _ => true
  | _ => false

/-- commands that do not change the channel state while it is disabled -/
def inert : Cmd → Bool
  | .request _ | .disable | .decode _ => true
  | _ => false

/-- the decode level after a consumed stretch of the queue: the last `DecodeLevel` setting wins -/
def decodeAfter (d : Nat) : List Cmd → Nat
  | [] => d
  | .decode l :: q => decodeAfter l q
  | _ :: q => decodeAfter d q

@[simp] theorem decodeAfter_nil (d : Nat) : decodeAfter d [] = d := rfl
@[simp] theorem decodeAfter_decode (d l : Nat) (q : List Cmd) :
    decodeAfter d (.decode l :: q) = decodeAfter l q := rfl
@[simp] theorem decodeAfter_request (d id : Nat) (q : List Cmd) :
    decodeAfter d (.request id :: q) = decodeAfter d q := rfl
@[simp] theorem decodeAfter_enable (d : Nat) (q : List Cmd) :
    decodeAfter d (.enable :: q) = decodeAfter d q := rfl
@[simp] theorem decodeAfter_disable (d : Nat) (q : List Cmd) :
    decodeAfter d (.disable :: q) = decodeAfter d q := rfl
@[simp] theorem decodeAfter_shutdown (d : Nat) (q : List Cmd) :
    decodeAfter d (.shutdown :: q) = decodeAfter d q := rfl

/-- a stretch of requests carries no decode-level change -/
theorem decodeAfter_requests (d : Nat) (ids : List Nat) :
    decodeAfter d (ids.map Cmd.request) = d := by
  induction ids with
  | nil => rfl
  | cons i ids ih => simpa using ih

/-- in `connect` and `failFor` a stretch of requests, (redundant) enables and decode-level
    changes is consumed at once, every request failing with noconn; the decode level is the only
    other thing that changes -/
theorem advance_benign (ph : Phase) (hph : ph = .connect ∨ ph = .failFor) :
    ∀ (pre rest : List Cmd) (s : S) (k : Nat), (∀ c ∈ pre, benign c = true) →
      s.queue = pre ++ rest →
      advance (pre.length + k) ph s =
        advance k ph { s with queue := rest, log := s.log ++ noconnEvents pre,
                              decode := decodeAfter s.decode pre } := by
  intro pre
  induction pre with
  | nil =>
    intro rest s k _ hq
    simp only [List.nil_append] at hq
    subst hq
    simp
  | cons c pre ih =>
    intro rest s k hb hq
    have hlen : (c :: pre).length + k = (pre.length + k) + 1 := by simp; omega
    have hc : benign c = true := hb c (by simp)
    have hpre : ∀ c ∈ pre, benign c = true := fun c hc => hb c (by simp [hc])
    rw [hlen, advance_succ]
    simp only [List.cons_append] at hq
    rcases hph with rfl | rfl <;> cases c <;> simp [benign] at hc
    all_goals
      simp only [step, hq, Res.fin]
      rw [ih rest _ k hpre (by simp)]
      simp [S.emit]

/-- in `wait_for_enabled` (disabled) a stretch of requests, (redundant) disables and decode-level
    changes is consumed at once, every request failing with noconn; the channel stays disabled -/
theorem advance_inert :
    ∀ (pre rest : List Cmd) (s : S) (k : Nat), (∀ c ∈ pre, inert c = true) →
      s.enabled = false → s.queue = pre ++ rest →
      advance (pre.length + k) .waitEnabled s =
        advance k .waitEnabled { s with queue := rest, log := s.log ++ noconnEvents pre,
                                        decode := decodeAfter s.decode pre } := by
  intro pre
  induction pre with
  | nil =>
    intro rest s k _ _ hq
    simp only [List.nil_append] at hq
    subst hq
    simp
  | cons c pre ih =>
    intro rest s k hb he hq
    have hlen : (c :: pre).length + k = (pre.length + k) + 1 := by simp; omega
    have hc : inert c = true := hb c (by simp)
    have hpre : ∀ c ∈ pre, inert c = true := fun c hc => hb c (by simp [hc])
    rw [hlen, advance_succ]
    simp only [List.cons_append] at hq
    cases c <;> simp [inert] at hc
    all_goals
      simp only [step, hq, he, Res.fin, Bool.false_eq_true, ↓reduceIte]
      rw [ih rest _ k hpre (by simp) (by simp)]
      simp [S.emit]


/-! ## termination once shutdown is requested or every handle is dropped -/

def rank (ph : Phase) (en : Bool) : Nat :=
  match ph with
  | .finished => 0
  | .failFor | .connect => 1
  | .waitEnabled => if en then 2 else 1
  | .session _ => 2
  | .afterDisable | .sessionStart _ => 3

/-- termination measure of an iteration -/
def mu (ph : Phase) (s : S) : Nat := 3 * s.queue.length + rank ph s.enabled

/-- termination measure of a blocking point -/
def muPos (s : S) : Pos → Nat
  | .gate _ next => mu next s + 1
  | .idle ph => mu ph s + 1
  | .done => 0

/-- a session phase never carries the behaviour `refuse` -/
def sessOk : Phase → Bool
  | .session b | .sessionStart b => !b.fails
  | _ => true

/-- the task is bound to terminate: `Shutdown` is queued or no handle is left -/
def Doomed (ph : Phase) (s : S) : Prop :=
  (ph = .finished ∨ Cmd.shutdown ∈ s.queue ∨ s.handles = false) ∧ sessOk ph = true

def DoomedPos (s : S) : Pos → Prop
  | .gate _ next => Doomed next s
  | .idle ph => Doomed ph s
  | .done => True

theorem step_doomed (ph : Phase) (s : S) (h : Doomed ph s) :
    (step ph s).sat (fun ph' s' => Doomed ph' s' ∧ mu ph' s' < mu ph s)
      (fun s' pos => DoomedPos s' pos ∧ muPos s' pos ≤ mu ph s) := by
  unfold step
  cases ph <;> simp [Doomed, sessOk] at h
  all_goals (simp only []; repeat' split)
  all_goals simp_all [Doomed, DoomedPos, sessOk, mu, muPos, rank]
  all_goals (try split) <;> omega


theorem advance_doomed_weak (fuel : Nat) : ∀ (ph : Phase) (s : S), Doomed ph s →
    DoomedPos (advance fuel ph s).1 (advance fuel ph s).2 ∧
      muPos (advance fuel ph s).1 (advance fuel ph s).2 ≤ mu ph s + 1 := by
  induction fuel with
  | zero => intro ph s h; exact ⟨h, Nat.le_refl _⟩
  | succ fuel ih =>
    intro ph s h
    rw [advance_succ]
    have := step_doomed ph s h
    cases hs : step ph s with
    | cont ph' s' =>
      rw [hs] at this
      have h1 : Doomed ph' s' ∧ mu ph' s' < mu ph s := this
      have h2 := ih ph' s' h1.1
      exact ⟨h2.1, by simp only [Res.fin]; omega⟩
    | halt s' pos =>
      rw [hs] at this
      have h1 : DoomedPos s' pos ∧ muPos s' pos ≤ mu ph s := this
      exact ⟨h1.1, by simp only [Res.fin]; omega⟩

/-- one more iteration strictly decreases the measure -/
theorem advance_doomed (fuel : Nat) (ph : Phase) (s : S) (h : Doomed ph s) :
    DoomedPos (advance (fuel + 1) ph s).1 (advance (fuel + 1) ph s).2 ∧
      muPos (advance (fuel + 1) ph s).1 (advance (fuel + 1) ph s).2 ≤ mu ph s := by
  rw [advance_succ]
  have := step_doomed ph s h
  cases hs : step ph s with
  | cont ph' s' =>
    rw [hs] at this
    have h1 : Doomed ph' s' ∧ mu ph' s' < mu ph s := this
    have h2 := advance_doomed_weak fuel ph' s' h1.1
    exact ⟨h2.1, by simp only [Res.fin]; omega⟩
  | halt s' pos => rw [hs] at this; exact this

theorem fuelFor_succ (s : S) : fuelFor s = (2 * s.queue.length + 7) + 1 := rfl

theorem stop_empty_doomed (s : S) (pos : Pos) (h : DoomedPos s pos) (hp : pos ≠ .done) :
    DoomedPos (stop s pos []).1 (stop s pos []).2 ∧
      muPos (stop s pos []).1 (stop s pos []).2 + 1 ≤ muPos s pos := by
  cases pos with
  | done => exact absurd rfl hp
  | gate st next =>
    simp only [stop, List.foldl_nil]
    rw [fuelFor_succ]
    have h' : Doomed next (s.report.emit (.gate st)) := by simpa [DoomedPos, Doomed] using h
    have := advance_doomed (2 * (s.report.emit (.gate st)).queue.length + 7) next (s.report.emit (.gate st)) h'
    exact ⟨this.1, by
      have := this.2
      simp only [muPos, mu, emit_queue, emit_enabled, report_queue, report_enabled] at *; omega⟩
  | idle ph =>
    simp only [stop, List.foldl_nil]
    rw [fuelFor_succ]
    have := advance_doomed (2 * (s.emit .idle).queue.length + 7) ph (s.emit .idle) h
    exact ⟨this.1, by have := this.2; simp only [muPos, mu, emit_queue, emit_enabled] at *; omega⟩

theorem muPos_zero (s : S) (pos : Pos) (h : muPos s pos = 0) : pos = .done := by
  cases pos <;> simp [muPos] at h ⊢

/-- a doomed task is done after at most `muPos` empty stops -/
theorem runStops_doomed (n : Nat) : ∀ (s : S) (pos : Pos), DoomedPos s pos → muPos s pos ≤ n →
    (runStops s pos (List.replicate n [])).2 = .done := by
  induction n with
  | zero => intro s pos _ hm; simp [runStops, muPos_zero s pos (by omega)]
  | succ n ih =>
    intro s pos h hm
    by_cases hp : pos = .done
    · subst hp; rw [runStops_done_pos]
    · rw [List.replicate_succ, runStops_cons]
      have := stop_empty_doomed s pos h hp
      exact ih _ _ this.1 (by omega)

/-- number of empty stops that are enough after a `[.shutdown]` / `[.dropAll]` stop -/
def termBound (s : S) : Nat := 3 * s.queue.length + 6

theorem phaseOk_sessOk (l : St) (ph : Phase) (h : phaseOk l ph = true) : sessOk ph = true := by
  cases ph <;> simp_all [phaseOk, sessOk]

theorem stop_kill_doomed (s : S) (pos : Pos) (a : Action) (ha : a = .shutdown ∨ a = .dropAll)
    (hs : ∀ st next, pos = .gate st next → sessOk next = true)
    (hi : ∀ ph, pos = .idle ph → sessOk ph = true) :
    DoomedPos (stop s pos [a]).1 (stop s pos [a]).2 ∧
      muPos (stop s pos [a]).1 (stop s pos [a]).2 ≤ termBound s := by
  cases pos with
  | done => simp [stop, DoomedPos, muPos]
  | gate st next =>
    simp only [stop, List.foldl_cons, List.foldl_nil]
    rw [fuelFor_succ]
    have hd : Doomed next (applyAction (s.report.emit (.gate st)) a) ∧
        (applyAction (s.report.emit (.gate st)) a).queue.length ≤ s.queue.length + 1 ∧
        (applyAction (s.report.emit (.gate st)) a).enabled = s.enabled := by
      unfold applyAction Doomed
      rcases ha with rfl | rfl <;> by_cases hh : s.handles = true <;> simp [hh, hs st next rfl]
    have := advance_doomed (2 * (applyAction (s.report.emit (.gate st)) a).queue.length + 7) next _ hd.1
    refine ⟨this.1, ?_⟩
    have h2 := this.2
    have hr : rank next s.enabled ≤ 3 := by cases next <;> simp [rank] <;> split <;> omega
    simp only [mu, hd.2.2] at h2
    simp only [termBound]
    have := hd.2.1
    omega
  | idle ph =>
    simp only [stop, List.foldl_cons, List.foldl_nil]
    rw [fuelFor_succ]
    have hd : Doomed ph (applyAction (s.emit .idle) a) ∧
        (applyAction (s.emit .idle) a).queue.length ≤ s.queue.length + 1 ∧
        (applyAction (s.emit .idle) a).enabled = s.enabled := by
      unfold applyAction Doomed
      rcases ha with rfl | rfl <;> by_cases hh : s.handles = true <;> simp [hh, hi ph rfl]
    have := advance_doomed (2 * (applyAction (s.emit .idle) a).queue.length + 7) ph _ hd.1
    refine ⟨this.1, ?_⟩
    have h2 := this.2
    have hr : rank ph s.enabled ≤ 3 := by cases ph <;> simp [rank] <;> split <;> omega
    simp only [mu, hd.2.2] at h2
    simp only [termBound]
    have := hd.2.1
    omega

/-- from a well-formed position, `[a]` (shutdown or drop of all handles) followed by
    `termBound` (or more) empty stops ends the task -/
theorem runStops_kill (s : S) (pos : Pos) (a : Action) (ha : a = .shutdown ∨ a = .dropAll)
    (h : RunInv s pos) (n : Nat) (hn : termBound s ≤ n) :
    (runStops s pos ([a] :: List.replicate n [])).2 = .done := by
  rw [runStops_cons]
  have hk := stop_kill_doomed s pos a ha
    (fun st next hp => by
      subst hp
      exact phaseOk_sessOk st next h.2.2.2.1.1)
    (fun ph hp => by
      subst hp
      obtain ⟨l, _, hl⟩ := h.2.2
      exact phaseOk_sessOk l ph hl.1)
  exact runStops_doomed n _ _ hk.1 (by have := hk.2; omega)


/-! ## accounting: submitted = completed + queued -/

/-- how often request `id` was submitted through a live handle -/
def submitted (id : Nat) (log : List Ev) : Nat := log.count (.act (.request id))

def isDone (id : Nat) : Ev → Bool
  | .done i _ => i == id
  | _ => false

/-- how often request `id` was completed (with any result) -/
def completed (id : Nat) (log : List Ev) : Nat := log.countP (isDone id)

/-- how often request `id` sits in the command queue -/
def queued (id : Nat) (q : List Cmd) : Nat := q.count (.request id)

@[simp] theorem submitted_append (id : Nat) (a b : List Ev) :
    submitted id (a ++ b) = submitted id a + submitted id b := by simp [submitted]
@[simp] theorem completed_append (id : Nat) (a b : List Ev) :
    completed id (a ++ b) = completed id a + completed id b := by simp [completed]
@[simp] theorem queued_append (id : Nat) (a b : List Cmd) :
    queued id (a ++ b) = queued id a + queued id b := by simp [queued]

@[simp] theorem submitted_done (id i : Nat) (r : String) : submitted id [.done i r] = 0 := by
  simp [submitted]
@[simp] theorem submitted_gate (id : Nat) (st : St) : submitted id [.gate st] = 0 := by
  simp [submitted]
@[simp] theorem submitted_idle (id : Nat) : submitted id [.idle] = 0 := by simp [submitted]
@[simp] theorem completed_done (id i : Nat) (r : String) :
    completed id [.done i r] = if i = id then 1 else 0 := by
  simp [completed, isDone, List.countP_cons]
@[simp] theorem completed_gate (id : Nat) (st : St) : completed id [.gate st] = 0 := by
  simp [completed, isDone]
@[simp] theorem completed_idle (id : Nat) : completed id [.idle] = 0 := by simp [completed, isDone]
@[simp] theorem completed_act (id : Nat) (a : Action) : completed id [.act a] = 0 := by
  simp [completed, isDone]
@[simp] theorem submitted_closed (id : Nat) : submitted id [.closed] = 0 := by simp [submitted]
@[simp] theorem submitted_refused (id : Nat) (a : Action) : submitted id [.refused a] = 0 := by
  simp [submitted]
@[simp] theorem completed_closed (id : Nat) : completed id [.closed] = 0 := by
  simp [completed, isDone]
@[simp] theorem completed_refused (id : Nat) (a : Action) : completed id [.refused a] = 0 := by
  simp [completed, isDone]
@[simp] theorem report_submitted (id : Nat) (s : S) : submitted id s.report.log = submitted id s.log := by
  unfold S.report; split <;> simp
@[simp] theorem report_completed (id : Nat) (s : S) : completed id s.report.log = completed id s.log := by
  unfold S.report; split <;> simp
@[simp] theorem queued_nil (id : Nat) : queued id [] = 0 := rfl
@[simp] theorem queued_cons_request (id i : Nat) (q : List Cmd) :
    queued id (.request i :: q) = queued id q + if i = id then 1 else 0 := by
  simp [queued, List.count_cons]
@[simp] theorem queued_cons_enable (id : Nat) (q : List Cmd) : queued id (.enable :: q) = queued id q := by
  simp [queued]
@[simp] theorem queued_cons_disable (id : Nat) (q : List Cmd) : queued id (.disable :: q) = queued id q := by
  simp [queued]
@[simp] theorem queued_cons_shutdown (id : Nat) (q : List Cmd) : queued id (.shutdown :: q) = queued id q := by
  simp [queued]
@[simp] theorem queued_cons_decode (id l : Nat) (q : List Cmd) : queued id (.decode l :: q) = queued id q := by
  simp [queued]

/-- what an iteration preserves: nothing is submitted by the task, and every request leaving the
    queue is completed exactly once -/
def Acc (s s' : S) : Prop :=
  ∀ id, submitted id s'.log = submitted id s.log ∧
    completed id s'.log + queued id s'.queue = completed id s.log + queued id s.queue

theorem flush_acc_aux (id : Nat) (q : List Cmd) (s : S) :
    let s' := q.foldl (fun s c => match c with
      | .request id => s.emit (.done id "shutdown")
      | _ => s) s
    submitted id s'.log = submitted id s.log ∧
      completed id s'.log = completed id s.log + queued id q := by
  induction q generalizing s with
  | nil => simp
  | cons c q ih =>
    simp only [List.foldl_cons]
    cases c
    case request i =>
      have := ih (s.emit (.done i "shutdown"))
      simp only [emit_log, submitted_append, completed_append, submitted_done, completed_done] at this
      simp only [queued_cons_request]
      omega
    all_goals simpa using ih s

theorem flush_submitted (id : Nat) (s : S) : submitted id (flush s).log = submitted id s.log :=
  (flush_acc_aux id s.queue s).1

theorem flush_completed (id : Nat) (s : S) :
    completed id (flush s).log = completed id s.log + queued id s.queue :=
  (flush_acc_aux id s.queue s).2

theorem step_acc (ph : Phase) (s : S) : Acc s (step ph s).state := by
  intro id
  unfold step
  repeat' split
  all_goals simp_all [flush_submitted, flush_completed]
  all_goals omega

theorem Acc.refl (s : S) : Acc s s := fun _ => ⟨rfl, rfl⟩

theorem Acc.trans {a b c : S} (h1 : Acc a b) (h2 : Acc b c) : Acc a c := fun id =>
  ⟨(h2 id).1.trans (h1 id).1, (h2 id).2.trans (h1 id).2⟩

theorem advance_acc (fuel : Nat) (ph : Phase) (s : S) : Acc s (advance fuel ph s).1 :=
  advance_rel (R := Acc) Acc.refl (fun _ _ _ => Acc.trans) step_acc fuel ph s

/-- conservation law of a run -/
def RunAcc (s : S) : Prop :=
  ∀ id, submitted id s.log = completed id s.log + queued id s.queue

theorem applyAction_runAcc (s : S) (a : Action) (h : RunAcc s) : RunAcc (applyAction s a) := by
  intro id
  have := h id
  unfold applyAction
  split
  · exact this
  · cases a <;> simp [submitted, completed, isDone, List.count_cons, queued] <;>
      simp only [submitted, completed, queued] at this <;> (try split) <;> omega

theorem foldl_applyAction_runAcc (acts : List Action) (s : S) (h : RunAcc s) :
    RunAcc (acts.foldl applyAction s) := by
  induction acts generalizing s with
  | nil => exact h
  | cons a acts ih => exact ih _ (applyAction_runAcc s a h)

theorem applyDone_runAcc (s : S) (a : Action) (h : RunAcc s) : RunAcc (applyDone s a) := by
  intro id
  have := h id
  unfold applyDone
  split
  · exact this
  · cases a <;> simp [submitted, completed, isDone, List.count_cons, queued] <;>
      simp only [submitted, completed, queued] at this <;> (try split) <;> omega

theorem foldl_applyDone_runAcc (acts : List Action) (s : S) (h : RunAcc s) :
    RunAcc (acts.foldl applyDone s) := by
  induction acts generalizing s with
  | nil => exact h
  | cons a acts ih => exact ih _ (applyDone_runAcc s a h)

theorem stop_runAcc (s : S) (pos : Pos) (acts : List Action) (h : RunAcc s) :
    RunAcc (stop s pos acts).1 := by
  cases pos with
  | done => exact foldl_applyDone_runAcc acts s h
  | gate st next =>
    simp only [stop]
    have h1 : RunAcc (s.report.emit (.gate st)) := fun id => by simpa using h id
    have h2 := foldl_applyAction_runAcc acts _ h1
    generalize acts.foldl applyAction (s.report.emit (.gate st)) = s2 at h2
    intro id
    have h3 := advance_acc (fuelFor s2) next s2 id
    have h4 := h2 id
    omega
  | idle ph =>
    simp only [stop]
    have h1 : RunAcc (s.emit .idle) := fun id => by simpa using h id
    have h2 := foldl_applyAction_runAcc acts _ h1
    generalize acts.foldl applyAction (s.emit .idle) = s2 at h2
    intro id
    have h3 := advance_acc (fuelFor s2) ph s2 id
    have h4 := h2 id
    omega

theorem runStops_runAcc (script : List (List Action)) (s : S) (pos : Pos) (h : RunAcc s) :
    RunAcc (runStops s pos script).1 := by
  induction script generalizing s pos with
  | nil => simpa [runStops] using h
  | cons acts rest ih => rw [runStops_cons]; exact ih _ _ (stop_runAcc s pos acts h)

theorem Reachable.runAcc {s pos} (h : Reachable s pos) : RunAcc s := by
  obtain ⟨s0, script, hi, hr⟩ := h
  have h0 : RunAcc (start s0).1 := by
    intro id
    obtain ⟨_, h2, _, h4, _⟩ := hi
    simp [start, h2, h4, submitted, completed]
  have := runStops_runAcc script _ (start s0).2 h0
  unfold run at hr
  rw [hr] at this
  exact this


theorem applyAction_submitted (id : Nat) (s : S) (a : Action) :
    submitted id (applyAction s a).log ≤ submitted id s.log + [a].count (.request id) := by
  unfold applyAction
  split
  · omega
  · cases a <;> simp [submitted, List.count_cons]

theorem foldl_applyAction_submitted (id : Nat) (acts : List Action) (s : S) :
    submitted id (acts.foldl applyAction s).log ≤ submitted id s.log + acts.count (.request id) := by
  induction acts generalizing s with
  | nil => simp
  | cons a acts ih =>
    have h1 := applyAction_submitted id s a
    have h2 := ih (applyAction s a)
    simp only [List.foldl_cons]
    rw [List.count_cons]
    simp only [List.count_cons, List.count_nil] at h1
    omega

theorem applyDone_submitted (id : Nat) (s : S) (a : Action) :
    submitted id (applyDone s a).log ≤ submitted id s.log + [a].count (.request id) := by
  unfold applyDone
  split
  · omega
  · cases a <;> simp [submitted, List.count_cons]

theorem foldl_applyDone_submitted (id : Nat) (acts : List Action) (s : S) :
    submitted id (acts.foldl applyDone s).log ≤ submitted id s.log + acts.count (.request id) := by
  induction acts generalizing s with
  | nil => simp
  | cons a acts ih =>
    have h1 := applyDone_submitted id s a
    have h2 := ih (applyDone s a)
    simp only [List.foldl_cons]
    rw [List.count_cons]
    simp only [List.count_cons, List.count_nil] at h1
    omega

theorem stop_submitted (id : Nat) (s : S) (pos : Pos) (acts : List Action) :
    submitted id (stop s pos acts).1.log ≤ submitted id s.log + acts.count (.request id) := by
  cases pos with
  | done => exact foldl_applyDone_submitted id acts s
  | gate st next =>
    simp only [stop]
    have h2 := foldl_applyAction_submitted id acts (s.report.emit (.gate st))
    generalize acts.foldl applyAction (s.report.emit (.gate st)) = s2 at h2
    have h3 := (advance_acc (fuelFor s2) next s2 id).1
    simp at h2
    omega
  | idle ph =>
    simp only [stop]
    have h2 := foldl_applyAction_submitted id acts (s.emit .idle)
    generalize acts.foldl applyAction (s.emit .idle) = s2 at h2
    have h3 := (advance_acc (fuelFor s2) ph s2 id).1
    simp at h2
    omega

theorem runStops_submitted (id : Nat) (script : List (List Action)) (s : S) (pos : Pos) :
    submitted id (runStops s pos script).1.log ≤
      submitted id s.log + script.flatten.count (.request id) := by
  induction script generalizing s pos with
  | nil => simp [runStops]
  | cons acts rest ih =>
    rw [runStops_cons]
    have h1 := ih (stop s pos acts).1 (stop s pos acts).2
    have h2 := stop_submitted id s pos acts
    simp only [List.flatten_cons, List.count_append]
    omega


/-! ## computations used by the C13 / C14 statements -/

theorem legalPath_adjacent (pre : List St) (a b : St) (post : List St)
    (h : legalPath (pre ++ a :: b :: post) = true) : legalNext a b = true := by
  induction pre with
  | nil => simp [legalPath] at h; exact h.1
  | cons x pre ih =>
    cases pre with
    | nil => simp [legalPath] at h; exact h.2.1
    | cons y pre =>
      simp only [List.cons_append, legalPath, Bool.and_eq_true] at h
      exact ih (by simpa using h.2)

/-- every command list is all-benign, or a benign stretch followed by `Disable` or `Shutdown` -/
theorem benign_split (q : List Cmd) :
    (∀ c ∈ q, benign c = true) ∨
    ∃ pre c rest, q = pre ++ c :: rest ∧ (∀ x ∈ pre, benign x = true) ∧
      (c = .disable ∨ c = .shutdown) := by
  induction q with
  | nil => left; simp
  | cons c q ih =>
    cases hc : benign c with
    | false =>
      right
      refine ⟨[], c, q, rfl, by simp, ?_⟩
      cases c <;> simp_all [benign]
    | true =>
      rcases ih with h | ⟨pre, c', rest, h1, h2, h3⟩
      · left; intro x hx
        rcases List.mem_cons.1 hx with rfl | hx
        · exact hc
        · exact h x hx
      · right
        refine ⟨c :: pre, c', rest, by simp [h1], ?_, h3⟩
        intro x hx
        rcases List.mem_cons.1 hx with rfl | hx
        · exact hc
        · exact h2 x hx

/-- the session phases never touch the retry strategy after the reset at their start -/
theorem advance_sessionStart_retry (fuel : Nat) (b : Behaviour) (s : S) :
    (advance (fuel + 1) (.sessionStart b) s).1.retry = Retry.reset s.retry := by
  rw [advance_succ]
  simp only [step, Res.fin]
  refine advance_inv
    (P := fun ph s' => (ph = .afterDisable ∨ ∃ b, ph = .session b) ∧ s'.retry = Retry.reset s.retry)
    (Q := fun s' _ => s'.retry = Retry.reset s.retry) (fun _ _ h => h.2) ?_ fuel (.session b) _
    ⟨Or.inr ⟨b, rfl⟩, rfl⟩
  intro ph s' h
  obtain ⟨hph, hr⟩ := h
  unfold step
  rcases hph with rfl | ⟨b, rfl⟩
  · simpa using hr
  · simp only []
    repeat' split
    all_goals simp_all

/-- the strategy object after `k` consecutive failed connects -/
def retryAfter : Retry.Doubling → Nat → Retry.Doubling
  | d, 0 => d
  | d, k + 1 => retryAfter (Retry.afterFailedConnect d).2 k

theorem retryAfter_min_max (k : Nat) : ∀ d, (retryAfter d k).min = d.min ∧ (retryAfter d k).max = d.max := by
  induction k with
  | zero => intro d; exact ⟨rfl, rfl⟩
  | succ k ih => intro d; simpa [retryAfter, Retry.afterFailedConnect] using ih (Retry.afterFailedConnect d).2

/-- the events the listener sees for a run of failed attempts with the given delays -/
def failEvents (ds : List Nat) : List St := ds.flatMap fun d => [.connecting, .waitFail d]

theorem advance_waitEnabled_enabled (f : Nat) (s : S) (he : s.enabled = true) :
    advance (f + 1) .waitEnabled s =
      ({ (nextBehaviour s).2 with cur := (nextBehaviour s).1 }, .gate .connecting .connect) := by
  simp [advance_succ, step, he, Res.fin]

/-- the peer's observation is read off once: reading it off again changes nothing -/
theorem report_report (s : S) : s.report.report = s.report :=
  report_of_false _ (report_unreported s)

/-- a stop at a callback starts by reading off the peer's observation -/
theorem stop_gate_report (s : S) (st : St) (next : Phase) (acts : List Action) :
    stop s (.gate st next) acts = stop s.report (.gate st next) acts := by
  simp only [stop, report_report]

theorem stop_connect_refused (s : S) (hq : s.queue = []) (hh : s.handles = true)
    (hc : s.cur.fails = true) (hu : s.unreported = false) :
    stop s (.gate .connecting .connect) [] =
      ({ s with log := s.log ++ [.gate .connecting], retry := (Retry.afterFailedConnect s.retry).2 },
        .gate (.waitFail (Retry.afterFailedConnect s.retry).1) .failFor) := by
  simp [stop, fuelFor_succ, advance_succ, step, hq, hh, hc, Res.fin, S.emit, report_of_false s hu]

theorem stop_connect_accepted (s : S) (hq : s.queue = []) (hh : s.handles = true)
    (hc : s.cur.fails = false) (hu : s.unreported = false) :
    stop s (.gate .connecting .connect) [] =
      ({ s with log := s.log ++ [.gate .connecting], conn := true },
        .gate .connected (.sessionStart s.cur)) := by
  simp [stop, fuelFor_succ, advance_succ, step, hq, hh, hc, Res.fin, S.emit, report_of_false s hu]

theorem stop_failFor_timer (s : S) (st : St) (hq : s.queue = []) (hh : s.handles = true)
    (hu : s.unreported = false) :
    stop s (.gate st .failFor) [] = advance 7 .waitEnabled (s.emit (.gate st)) := by
  simp [stop, fuelFor, advance_succ, step, hq, hh, Res.fin, report_of_false s hu]

theorem nextBehaviour_single (s : S) (b : Behaviour) (h : s.behaviours = [b]) :
    nextBehaviour s = (b, s) := by
  simp [nextBehaviour, h]

theorem nextBehaviour_cons2 (s : S) (b x : Behaviour) (t : List Behaviour)
    (h : s.behaviours = b :: x :: t) :
    nextBehaviour s = (b, { s with behaviours := x :: t }) := by
  simp [nextBehaviour, h]

/-- the reconnect loop: a stretch `fs` of failing attempts (refused connects and failed
    handshakes, in any order), then an accepted one, with nothing else going on -/
theorem reconnect_loop_fails (b : Behaviour) (hb : b.fails = false) (fs : List Behaviour) :
    ∀ (s : S) (f : Nat), s.enabled = true → s.queue = [] → s.handles = true →
      s.unreported = false →
      (∀ x ∈ fs, x.fails = true) → s.behaviours = fs ++ [b] →
      (runStops (advance (f + 1) .waitEnabled s).1 (advance (f + 1) .waitEnabled s).2
          (List.replicate (2 * fs.length + 1) [])).2 = .gate .connected (.sessionStart b) ∧
      states (runStops (advance (f + 1) .waitEnabled s).1 (advance (f + 1) .waitEnabled s).2
          (List.replicate (2 * fs.length + 1) [])).1.log =
        states s.log ++ failEvents (Retry.failures s.retry fs.length) ++ [.connecting] ∧
      (runStops (advance (f + 1) .waitEnabled s).1 (advance (f + 1) .waitEnabled s).2
          (List.replicate (2 * fs.length + 1) [])).1.retry = retryAfter s.retry fs.length := by
  induction fs with
  | nil =>
    intro s f he hq hh hu _ hbs
    simp only [List.nil_append] at hbs
    rw [advance_waitEnabled_enabled f s he]
    rw [nextBehaviour_single s b hbs]
    simp only [List.length_nil, Nat.mul_zero, Nat.zero_add, List.replicate_succ,
      List.replicate_zero, runStops_cons]
    rw [stop_connect_accepted { s with cur := b } hq hh hb hu]
    simp [runStops, failEvents, Retry.failures, retryAfter]
  | cons x0 fs ih =>
    intro s f he hq hh hu hfs hbs
    have hx0 : x0.fails = true := hfs x0 (by simp)
    have hfs' : ∀ x ∈ fs, x.fails = true := fun x hx => hfs x (by simp [hx])
    have htail : ∃ x t, fs ++ [b] = x :: t := by
      cases fs with
      | nil => exact ⟨b, [], rfl⟩
      | cons y t => exact ⟨y, t ++ [b], rfl⟩
    obtain ⟨x, t, ht⟩ := htail
    have h2 : 2 * (x0 :: fs).length + 1 = (2 * fs.length + 1) + 1 + 1 := by
      simp only [List.length_cons]; omega
    have hbs' : s.behaviours = x0 :: x :: t := by
      rw [hbs, List.cons_append, ht]
    rw [h2, advance_waitEnabled_enabled f s he]
    rw [nextBehaviour_cons2 s _ x t hbs']
    simp only [List.replicate_succ, runStops_cons]
    rw [stop_connect_refused { s with behaviours := x :: t, cur := x0 } hq hh hx0 hu]
    simp only []
    rw [stop_failFor_timer { s with behaviours := x :: t, cur := x0, log := s.log ++ [Ev.gate St.connecting], retry := (Retry.afterFailedConnect s.retry).2 } _ hq hh hu]
    have := ih (S.emit { s with behaviours := x :: t, cur := x0, log := s.log ++ [Ev.gate St.connecting], retry := (Retry.afterFailedConnect s.retry).2 }
        (Ev.gate (St.waitFail (Retry.afterFailedConnect s.retry).1))) 6 he hq hh hu hfs' ht.symm
    simp only [List.replicate_succ, runStops_cons, Nat.reduceAdd] at this
    refine ⟨this.1, ?_, ?_⟩
    · rw [this.2.1]
      simp [failEvents, Retry.failures, List.flatMap_cons, states]
    · rw [this.2.2]
      simp [retryAfter]

/-- the reconnect loop with `k` refused attempts -/
theorem reconnect_loop (b : Behaviour) (hb : b.fails = false) (k : Nat) :
    ∀ (s : S) (f : Nat), s.enabled = true → s.queue = [] → s.handles = true →
      s.unreported = false →
      s.behaviours = List.replicate k .refuse ++ [b] →
      (runStops (advance (f + 1) .waitEnabled s).1 (advance (f + 1) .waitEnabled s).2
          (List.replicate (2 * k + 1) [])).2 = .gate .connected (.sessionStart b) ∧
      states (runStops (advance (f + 1) .waitEnabled s).1 (advance (f + 1) .waitEnabled s).2
          (List.replicate (2 * k + 1) [])).1.log =
        states s.log ++ failEvents (Retry.failures s.retry k) ++ [.connecting] ∧
      (runStops (advance (f + 1) .waitEnabled s).1 (advance (f + 1) .waitEnabled s).2
          (List.replicate (2 * k + 1) [])).1.retry = retryAfter s.retry k := by
  intro s f he hq hh hu hbs
  have := reconnect_loop_fails b hb (List.replicate k .refuse) s f he hq hh hu
    (fun x hx => by rw [List.eq_of_mem_replicate hx]; rfl) hbs
  simpa using this


/-- the completions of a stretch of requests that all time out -/
def timeoutEvents (ids : List Nat) : List Ev := ids.map fun id => .done id "timeout"

/-- a silent peer: requests time out one by one while the limit is not reached -/
theorem advance_silent_below :
    ∀ (ids : List Nat) (rest : List Cmd) (s : S) (k : Nat),
      s.queue = ids.map Cmd.request ++ rest →
      (s.maxto = 0 ∨ s.tcount + ids.length < s.maxto) →
      advance (ids.length + k) (.session .silent) s =
        advance k (.session .silent)
          { s with queue := rest, tcount := s.tcount + ids.length,
                   log := s.log ++ timeoutEvents ids } := by
  intro ids
  induction ids with
  | nil =>
    intro rest s k hq _
    simp only [List.map_nil, List.nil_append] at hq
    subst hq
    simp [timeoutEvents]
  | cons id ids ih =>
    intro rest s k hq hlim
    have hlen : (id :: ids).length + k = (ids.length + k) + 1 := by simp; omega
    simp only [List.map_cons, List.cons_append] at hq
    have hno : ¬(s.maxto ≠ 0 ∧ s.tcount + 1 ≥ s.maxto) := by
      simp only [List.length_cons] at hlim
      omega
    rw [hlen, advance_succ]
    simp only [step, hq, Res.fin, hno, ↓reduceIte, reduceCtorEq, fails_silent, gone_silent,
      Bool.false_eq_true]
    rw [ih rest _ k (by simp) (by simp only [emit_maxto, emit_tcount, List.length_cons] at *; omega)]
    simp [S.emit, timeoutEvents, Nat.add_assoc, Nat.add_comm 1]

/-- … and the request that reaches the limit ends the session -/
theorem advance_silent_limit (id : Nat) (rest : List Cmd) (s : S) (k : Nat)
    (hq : s.queue = .request id :: rest) (h0 : s.maxto ≠ 0) (hlim : s.tcount + 1 ≥ s.maxto) :
    advance (k + 1) (.session .silent) s =
      ({ s with queue := rest, tcount := s.tcount + 1, log := s.log ++ [.done id "timeout"],
                conn := false, unreported := true },
        .gate (.waitDisc (Retry.afterDisconnect s.retry)) .failFor) := by
  have hyes : s.maxto ≠ 0 ∧ s.tcount + 1 ≥ s.maxto := ⟨h0, hlim⟩
  rw [advance_succ]
  simp [step, hq, Res.fin, hyes, S.emit, S.closeConn]


/-! ## the task only ever sleeps with an empty queue (`fuelFor` is enough) -/

/-- iterations needed beyond one per queued command, for every phase -/
def need : Phase → Nat
  | .sessionStart _ | .failFor => 2
  | _ => 1

theorem step_idle_empty (ph : Phase) (s : S) (h : sessOk ph = true) :
    (step ph s).sat
      (fun ph' s' => sessOk ph' = true ∧ s'.queue.length + need ph' + 1 ≤ s.queue.length + need ph)
      (fun s' pos => ∀ ph', pos = .idle ph' → s'.queue = []) := by
  unfold step
  cases ph <;> simp [sessOk] at h
  all_goals (simp only []; repeat' split)
  all_goals simp_all [sessOk, need]

theorem advance_idle_empty (fuel : Nat) : ∀ (ph : Phase) (s : S), sessOk ph = true →
    s.queue.length + need ph ≤ fuel →
    ∀ ph', (advance fuel ph s).2 = .idle ph' → (advance fuel ph s).1.queue = [] := by
  induction fuel with
  | zero => intro ph s _ hf; cases ph <;> simp [need] at hf
  | succ fuel ih =>
    intro ph s h hf
    rw [advance_succ]
    have := step_idle_empty ph s h
    cases hs : step ph s with
    | cont ph' s' =>
      rw [hs] at this
      have h1 : sessOk ph' = true ∧ s'.queue.length + need ph' + 1 ≤ s.queue.length + need ph := this
      exact ih ph' s' h1.1 (by omega)
    | halt s' pos => rw [hs] at this; exact this

theorem need_le (ph : Phase) : need ph ≤ 2 := by cases ph <;> simp [need]

theorem stop_idle_empty (s : S) (pos : Pos) (acts : List Action) (h : RunInv s pos) :
    ∀ ph', (stop s pos acts).2 = .idle ph' → (stop s pos acts).1.queue = [] := by
  cases pos with
  | done => intro ph' hp; simp [stop] at hp
  | gate st next =>
    simp only [stop]
    exact advance_idle_empty _ next _ (phaseOk_sessOk st next h.2.2.2.1.1)
      (by have := need_le next; unfold fuelFor; omega)
  | idle ph =>
    obtain ⟨l, _, hl⟩ := h.2.2
    simp only [stop]
    exact advance_idle_empty _ ph _ (phaseOk_sessOk l ph hl.1)
      (by have := need_le ph; unfold fuelFor; omega)

/-- a non-empty run ends with a `stop` from a reachable position -/
theorem run_snoc (s0 : S) (script : List (List Action)) (acts : List Action) :
    run s0 (script ++ [acts]) = stop (run s0 script).1 (run s0 script).2 acts := by
  unfold run
  rw [runStops_append, runStops_cons]
  rfl

theorem Reachable.idle_empty {s : S} {ph : Phase} (h : Reachable s (.idle ph)) : s.queue = [] := by
  obtain ⟨s0, script, hi, hr⟩ := h
  rcases List.eq_nil_or_concat script with rfl | ⟨init, acts, rfl⟩
  · simp [run, Rodbus.Life.runStops, start] at hr
  · rw [List.concat_eq_append, run_snoc] at hr
    have hinv : RunInv (run s0 init).1 (run s0 init).2 := Reachable.runInv ⟨s0, init, hi, rfl⟩
    have := stop_idle_empty _ _ acts hinv ph (by rw [hr])
    rw [hr] at this
    exact this

/-- the completions produced when the task ends with commands still queued -/
def shutdownEvents (q : List Cmd) : List Ev :=
  q.filterMap fun c => match c with | .request id => some (.done id "shutdown") | _ => none

theorem flush_log_aux (q : List Cmd) (s : S) :
    (q.foldl (fun s c => match c with
      | .request id => s.emit (.done id "shutdown")
      | _ => s) s).log = s.log ++ shutdownEvents q := by
  induction q generalizing s with
  | nil => simp [shutdownEvents]
  | cons c q ih =>
    simp only [List.foldl_cons]
    cases c <;> simp [ih, shutdownEvents]

theorem flush_log (s : S) : (flush s).log = s.log ++ shutdownEvents s.queue :=
  flush_log_aux s.queue s


end Rodbus.Life
