import RodbusModel.Model.Server
import RodbusModel.Model.Mbap
import RodbusModel.Model.Rtu
/-
  M6 (session level): `SessionTask::run` / `run_one` (server/task.rs) over a script of transport
  and command events.  The reader (`FramedReader`) is M3/M4/M5; frames are handled by
  `handleFrame`.  The decode level is threaded exactly where the code consults it: it selects
  which log lines are produced (`tracing::info!` guarded by `decode.*.enabled()`), nothing else.
-/
namespace Rodbus

/-- `DecodeLevel` (application 0..3, frame 0..2, physical 0..2) -/
structure DecodeLevel where
  app : Nat := 0
  frame : Nat := 0
  phys : Nat := 0
deriving DecidableEq, Repr

inductive SessStep
  /-- the transport delivers these bytes (one or more `read`s) -/
  | data (bs : Bytes)
  /-- `ServerCommand::ChangeDecoding` -/
  | setDecode (l : DecodeLevel)
  /-- `ServerCommand::Shutdown` -/
  | shutdown
  /-- the transport reports an error -/
  | readErr
  /-- the peer closes -/
  | eof
deriving DecidableEq, Repr

inductive EndKind
  | eof | reset | shutdown | badFrame (e : FrameErr)
  /-- the script ran out while the session was still alive -/
  | running
deriving DecidableEq, Repr

inductive Framing | tcp | rtu
deriving DecidableEq, Repr

/-- the reader of a server session -/
def readerRun : Framing → List Bytes → List Event
  | .tcp, cs => Mbap.run cs
  | .rtu, cs => Rtu.run .request cs

def frameOut : Framing → Frame → Bytes → Bytes
  | .tcp, f, pdu => Mbap.format (f.tx.getD 0) f.dest pdu
  | .rtu, f, pdu => Rtu.format f.dest pdu

/-- data delivered before the first event that ends the session, and that event's kind -/
def cutScript : List SessStep → List Bytes × EndKind
  | [] => ([], .running)
  | .data bs :: rest => let (cs, k) := cutScript rest; (bs :: cs, k)
  | .setDecode _ :: rest => cutScript rest
  | .shutdown :: _ => ([], .shutdown)
  | .readErr :: _ => ([], .reset)
  | .eof :: _ => ([], .eof)

structure SessOut (σ : Type) where
  /-- every byte written to the transport, in order -/
  tx : Bytes
  calls : List Call
  states : List (Nat × σ)
  ended : EndKind

/-- handle the reader's events in order; a framing error ends the session -/
def handleEvents {σ : Type} (fr : Framing) (cfg : ServerCfg σ) (ended : EndKind) :
    List (Nat × σ) → List Event → SessOut σ
  | hs, [] => ⟨[], [], hs, ended⟩
  | hs, .err e :: _ => ⟨[], [], hs, .badFrame e⟩
  | hs, .frame f :: rest =>
    let o := handleFrame cfg hs f
    let r := handleEvents fr cfg ended o.states rest
    ⟨(match o.reply with | some p => frameOut fr f p | none => []) ++ r.tx, o.calls ++ r.calls,
     r.states, r.ended⟩

/-- `SessionTask::run`.  The decode level `_decode` and the `setDecode` steps do not occur on
    the right-hand side: the level only selects log lines (see `logLines`). -/
def runSession {σ : Type} (fr : Framing) (cfg : ServerCfg σ) (_decode : DecodeLevel)
    (hs : List (Nat × σ)) (script : List SessStep) : SessOut σ :=
  let (chunks, kind) := cutScript script
  handleEvents fr cfg kind hs (readerRun fr chunks)

/-! ### A failing transport write

`reply_with_error_generic` and the reply path of `handle_frame` end with
`io.write(bytes, …).await?`: an error of the transport's write ends the session
(`RequestError::Io`).  The fault model: the transport accepts the first `n` reply writes and
fails the next one.  The request whose reply cannot be written HAS been handled (the handler
calls happen before the reply is formatted), nothing of its reply reaches the wire, the
remaining events are never looked at. -/

/-- how a session over a transport with a failing write ends -/
inductive EndW
  | kind (k : EndKind)
  /-- `io.write` failed -/
  | writeErr
deriving DecidableEq, Repr

structure SessOutW (σ : Type) where
  tx : Bytes
  calls : List Call
  states : List (Nat × σ)
  ended : EndW

/-- `handleEvents` over a transport that accepts `n` more reply writes and fails the next -/
def handleEventsW {σ : Type} (fr : Framing) (cfg : ServerCfg σ) (ended : EndKind) :
    Nat → List (Nat × σ) → List Event → SessOutW σ
  | _, hs, [] => ⟨[], [], hs, .kind ended⟩
  | _, hs, .err e :: _ => ⟨[], [], hs, .kind (.badFrame e)⟩
  | n, hs, .frame f :: rest =>
    let o := handleFrame cfg hs f
    match o.reply, n with
    | none, n =>
      let r := handleEventsW fr cfg ended n o.states rest
      ⟨r.tx, o.calls ++ r.calls, r.states, r.ended⟩
    | some _, 0 => ⟨[], o.calls, o.states, .writeErr⟩
    | some p, n + 1 =>
      let r := handleEventsW fr cfg ended n o.states rest
      ⟨frameOut fr f p ++ r.tx, o.calls ++ r.calls, r.states, r.ended⟩

/-- `SessionTask::run` over a transport whose `(n+1)`-th write fails -/
def runSessionW {σ : Type} (fr : Framing) (cfg : ServerCfg σ) (_decode : DecodeLevel)
    (n : Nat) (hs : List (Nat × σ)) (script : List SessStep) : SessOutW σ :=
  let (chunks, kind) := cutScript script
  handleEventsW fr cfg kind n hs (readerRun fr chunks)

/-! ### Commands cancel the pending read

`run_one` is a `select!` over `reader.next_frame(..)` and `commands.recv()`: a command that arrives
while the reader waits for the transport drops the future of `next_frame`.  `runSession` treats
commands as invisible to the reader; `runSessionC` is the finer model in which every command that
does not end the session cancels the pending read (`runChunksC`).  `Props/C05Cancel` proves the two
equal for every script. -/

/-- the deliveries of a script: `none` = a `ChangeDecoding` command (a cancelled read) -/
def deliveriesC : List SessStep → List (Option Bytes) × EndKind
  | [] => ([], .running)
  | .data bs :: rest => let (cs, k) := deliveriesC rest; (some bs :: cs, k)
  | .setDecode _ :: rest => let (cs, k) := deliveriesC rest; (none :: cs, k)
  | .shutdown :: _ => ([], .shutdown)
  | .readErr :: _ => ([], .reset)
  | .eof :: _ => ([], .eof)

def readerRunC : Framing → List (Option Bytes) → List Event
  | .tcp, ds => runChunksC Mbap.parse .begin RB.empty ds
  | .rtu, ds => runChunksC (Rtu.parse .request) .start RB.empty ds

/-- `SessionTask::run` with reads cancelled by commands -/
def runSessionC {σ : Type} (fr : Framing) (cfg : ServerCfg σ) (_decode : DecodeLevel)
    (hs : List (Nat × σ)) (script : List SessStep) : SessOut σ :=
  let (ds, kind) := deliveriesC script
  handleEvents fr cfg kind hs (readerRunC fr ds)

/-- `SessionTask::run` with reads cancelled by commands AND a transport whose `(n+1)`-th write fails -/
def runSessionWC {σ : Type} (fr : Framing) (cfg : ServerCfg σ) (_decode : DecodeLevel)
    (n : Nat) (hs : List (Nat × σ)) (script : List SessStep) : SessOutW σ :=
  let (ds, kind) := deliveriesC script
  handleEventsW fr cfg kind n hs (readerRunC fr ds)

/-- the level in force after a prefix of the script -/
def levelAfter (l : DecodeLevel) : List SessStep → DecodeLevel
  | [] => l
  | .setDecode l' :: rest => levelAfter l' rest
  | _ :: rest => levelAfter l rest

/-- number of log lines a frame produces at a level: `PHYS`, `MBAP/RTU RX`, `PDU RX`, and the
    same three for a reply -/
def logLines (l : DecodeLevel) (replied : Bool) : Nat :=
  let one (n : Nat) := if n = 0 then 0 else 1
  (one l.phys + one l.frame + one l.app) * (if replied then 2 else 1)

end Rodbus
