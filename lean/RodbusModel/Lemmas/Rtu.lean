import RodbusModel.Spec.Rtu
import RodbusModel.Lemmas.Crc
/-
  Helper lemmas for C06: the guards of the `ReadBuffer` accessors always hold inside the RTU
  parser, one parser call simulates the state-aware whole-stream specification, and the reader
  loop therefore produces the events of the whole stream for every chunking.
-/
namespace Rodbus.Rtu
open Rodbus.Crc

/-! ### list helpers -/

theorem getD_drop (l : Bytes) (n i : Nat) : (l.drop n).getD i 0 = l.getD (n + i) 0 := by
  simp [List.getD_eq_getElem?_getD, List.getElem?_drop]

theorem getD_append_left (a b : Bytes) (i : Nat) (h : i < a.length) :
    (a ++ b).getD i 0 = a.getD i 0 := by
  simp [List.getD_eq_getElem?_getD, List.getElem?_append_left h]

theorem getElem?_eq_some_getD (l : Bytes) (i : Nat) (h : i < l.length) :
    l[i]? = some (l.getD i 0) := by
  simp [List.getD_eq_getElem?_getD, List.getElem?_eq_getElem h]

/-- a list with at least `m + 2` elements, split around positions `m`, `m + 1` -/
theorem split_at_pair : ∀ (m : Nat) (l : Bytes), m + 2 ≤ l.length →
    l = l.take m ++ [l.getD m 0, l.getD (m + 1) 0] ++ l.drop (m + 2)
  | 0, a :: b :: t, _ => by simp
  | 0, [], h => by simp at h
  | 0, [_], h => by simp at h
  | m + 1, [], h => by simp at h
  | m + 1, a :: t, h => by
    have := split_at_pair m t (by simpa using h)
    simp only [List.take_succ_cons, List.getD_cons_succ, List.drop_succ_cons, List.cons_append]
    exact congrArg (a :: ·) this

/-! ### `ReadBuffer` accessors under the parser's own length checks -/

theorem consume_consume (rb : RB) (n m : Nat) : (rb.consume n).consume m = rb.consume (n + m) := by
  simp [RB.consume, List.drop_drop, Nat.add_assoc]

theorem readU8_of_pos (rb : RB) (h : 0 < rb.data.length) :
    readU8 rb = some (rb.data.getD 0 0, rb.consume 1) := by
  unfold readU8
  cases hd : rb.data with
  | nil => simp [hd] at h
  | cons b t => simp

theorem peekAt_of_lt (rb : RB) (idx : Nat) (h : idx < rb.data.length) :
    peekAt rb idx = some (rb.data.getD idx 0) := by
  unfold peekAt RB.len
  rw [if_neg (by omega), getElem?_eq_some_getD _ _ h]

theorem readN_of_le (rb : RB) (n : Nat) (h : n ≤ rb.data.length) :
    readN rb n = some (rb.data.take n, rb.consume n) := by
  unfold readN RB.len
  rw [if_neg (by omega)]

theorem readU16le_of_le (rb : RB) (h : 2 ≤ rb.data.length) :
    readU16le rb = some (be16 (rb.data.getD 1 0) (rb.data.getD 0 0), rb.consume 2) := by
  unfold readU16le
  rw [readU8_of_pos rb (by omega)]
  have h1 : 0 < (rb.consume 1).data.length := by simp [RB.consume]; omega
  simp only [readU8_of_pos _ h1, consume_consume]
  simp [RB.consume]

/-! ### guard-free normal forms of the three parser arms -/

theorem parseFullBody_tooBig (dest len : Nat) (rb : RB) (h : len + 1 > 253) :
    parseFullBody dest len rb =
      (.err (.frameLengthTooBig (len + 1) 253), .fullBody dest len, rb) := by
  unfold parseFullBody MAX_ADU; rw [if_pos (by omega), Nat.add_comm 1 len]

theorem parseFullBody_short (dest len : Nat) (rb : RB) (h : ¬ len + 1 > 253)
    (h2 : rb.data.length < len + 3) :
    parseFullBody dest len rb = (.none, .fullBody dest len, rb) := by
  unfold parseFullBody MAX_ADU RB.len; rw [if_neg (by omega), if_pos (by omega)]

theorem parseFullBody_ready (dest len : Nat) (rb : RB) (h : ¬ len + 1 > 253)
    (h2 : ¬ rb.data.length < len + 3) :
    parseFullBody dest len rb =
      (if be16 (rb.data.getD (len + 2) 0) (rb.data.getD (len + 1) 0)
            ≠ crc (dest :: rb.data.take (len + 1)) then
         (.err (.crcValidationFailure
            (be16 (rb.data.getD (len + 2) 0) (rb.data.getD (len + 1) 0))
            (crc (dest :: rb.data.take (len + 1)))), .fullBody dest len, rb.consume (len + 3))
       else (.frame ⟨none, dest, rb.data.take (len + 1)⟩, .start, rb.consume (len + 3))) := by
  unfold parseFullBody MAX_ADU RB.len
  rw [if_neg (by omega), if_neg (by omega), readN_of_le rb (1 + len) (by omega)]
  have h3 : 2 ≤ (rb.consume (1 + len)).data.length := by simp [RB.consume]; omega
  simp only [readU16le_of_le _ h3, consume_consume]
  have e1 : 1 + len = len + 1 := by omega
  have e3 : len + 1 + 2 = len + 3 := by omega
  have e2 : len + 1 + 1 = len + 2 := by omega
  have g0 : (rb.consume (len + 1)).data.getD 0 0 = rb.data.getD (len + 1) 0 := by
    simp [RB.consume]
  have g1 : (rb.consume (len + 1)).data.getD 1 0 = rb.data.getD (len + 2) 0 := by
    simp [RB.consume, e2]
  rw [e1, e3, g0, g1]

theorem parseToOffset_short (dest off : Nat) (rb : RB) (h : rb.data.length < 1 + off) :
    parseToOffset dest off rb = (.none, .toOffset dest off, rb) := by
  unfold parseToOffset; rw [if_pos (by simpa [RB.len] using h)]

theorem parseToOffset_ready (dest off : Nat) (rb : RB) (h : ¬ rb.data.length < 1 + off) :
    parseToOffset dest off rb = parseFullBody dest (off + rb.data.getD off 0) rb := by
  unfold parseToOffset
  rw [if_neg (by simpa [RB.len] using h), peekAt_of_lt rb (1 + off - 1) (by omega)]
  have : 1 + off - 1 = off := by omega
  simp [this]

theorem parseStart_short (d : Dir) (rb : RB) (h : rb.data.length < 2) :
    parseStart d rb = (.none, .start, rb) := by
  unfold parseStart; rw [if_pos (by simpa [RB.len] using h)]

theorem parseStart_ready (d : Dir) (rb : RB) (h : ¬ rb.data.length < 2) :
    parseStart d rb =
      (match lengthMode d (rb.data.getD 1 0) with
       | .fixed n => parseFullBody (rb.data.getD 0 0) n (rb.consume 1)
       | .offset k => parseToOffset (rb.data.getD 0 0) k (rb.consume 1)
       | .unknown => (.err (.unknownFunctionCode (rb.data.getD 1 0)), .start, rb.consume 1)) := by
  unfold parseStart
  rw [if_neg (by simpa [RB.len] using h), readU8_of_pos rb (by omega)]
  have h1 : 0 < (rb.consume 1).data.length := by simp [RB.consume]; omega
  have e : (rb.consume 1).data.getD 0 0 = rb.data.getD 1 0 := by simp [RB.consume]
  simp only [peekAt_of_lt _ 0 h1, e]
  cases lengthMode d (rb.data.getD 1 0) <;> rfl

/-! ### state-aware form of the whole-stream specification -/

/-- the specification of a stream that starts at the function code of a frame whose address
    `dest` was already consumed and whose PDU has `1 + len` bytes -/
def specBody (d : Dir) (dest len : Nat) (s : Bytes) : List Event :=
  if len + 1 > 253 then [.err (.frameLengthTooBig (len + 1) 253)]
  else if s.length < len + 3 then []
  else
    let pdu := s.take (len + 1)
    let received := be16 (s.getD (len + 2) 0) (s.getD (len + 1) 0)
    let expected := crc (dest :: pdu)
    if received ≠ expected then [.err (.crcValidationFailure received expected)]
    else .frame ⟨none, dest, pdu⟩ :: specFrames d (s.drop (len + 3))

/-- what the rest of the stream denotes when the parser is in state `st` -/
def specFrom (d : Dir) : PState → Bytes → List Event
  | .start, s => specFrames d s
  | .toOffset dest off, s =>
    match s[off]? with
    | none => []
    | some extra => specBody d dest (off + extra) s
  | .fullBody dest len, s => specBody d dest len s

theorem specFrames_len (d : Dir) (s : Bytes) (n : Nat) (h : frameLen? d s = .len n) :
    specFrames d s = specBody d (s.headD 0) n (s.drop 1) := by
  rw [specFrames, h]
  simp only [specBody]
  by_cases h1 : n + 1 > 253
  · simp [h1]
  · rw [if_neg h1, if_neg h1]
    by_cases h2 : s.length < n + 4
    · have : (s.drop 1).length < n + 3 := by rw [List.length_drop]; omega
      rw [dif_pos h2, if_pos this]
    · have : ¬ (s.drop 1).length < n + 3 := by rw [List.length_drop]; omega
      rw [dif_neg h2, if_neg this]

theorem specFrames_short (d : Dir) (s : Bytes) (h : s.length < 2) : specFrames d s = [] := by
  have : frameLen? d s = .more := by
    match s, h with
    | [], _ => rfl
    | [_], _ => rfl
    | _ :: _ :: _, h => simp at h; omega
  rw [specFrames, this]

/-- the specification after the address byte and with the function code in view -/
theorem specFrames_cons (d : Dir) (dest fc : Nat) (t : Bytes) :
    specFrames d (dest :: fc :: t) =
      match lengthMode d fc with
      | .fixed n => specFrom d (.fullBody dest n) (fc :: t)
      | .offset k => specFrom d (.toOffset dest k) (fc :: t)
      | .unknown => [.err (.unknownFunctionCode fc)] := by
  cases hm : lengthMode d fc with
  | fixed n =>
    have : frameLen? d (dest :: fc :: t) = .len n := by simp [frameLen?, hm]
    simp [specFrames_len d _ n this, specFrom]
  | offset k =>
    simp only [specFrom]
    cases hk : (fc :: t)[k]? with
    | none =>
      have : frameLen? d (dest :: fc :: t) = .more := by simp [frameLen?, hm, hk]
      rw [specFrames, this]
    | some extra =>
      have : frameLen? d (dest :: fc :: t) = .len (k + extra) := by simp [frameLen?, hm, hk]
      simp [specFrames_len d _ _ this]
  | unknown =>
    have : frameLen? d (dest :: fc :: t) = .bad fc := by simp [frameLen?, hm]
    rw [specFrames, this]

theorem lengthMode_offset_le (d : Dir) (fc k : Nat) (h : lengthMode d fc = .offset k) : k ≤ 5 := by
  unfold lengthMode at h
  split at h
  · simp at h
  · cases d <;> simp only at h <;> (repeat' (split at h)) <;> simp at h <;> omega

theorem lengthMode_fixed_le (d : Dir) (fc n : Nat) (h : lengthMode d fc = .fixed n) : n ≤ 4 := by
  unfold lengthMode at h
  split at h
  · simp at h; omega
  · cases d <;> simp only at h <;> (repeat' (split at h)) <;> simp at h <;> omega

/-! ### one parser call simulates the specification -/

/-- the number of buffered bytes below which the parser blocks in state `st` -/
def need : PState → Nat
  | .start => 2
  | .toOffset _ off => 1 + off
  | .fullBody _ len => len + 3

/-- states the parser can be in (between calls) -/
def StOk : PState → Prop
  | .start => True
  | .toOffset _ off => off ≤ 5
  | .fullBody _ len => len + 1 ≤ 253

/-- the relation between one parser call from `(st, rb)` and the specification of the stream
    `rb.data ++ fut` (`fut` = the bytes that will arrive later) -/
def Sim (d : Dir) (st : PState) (rb : RB) (fut : Bytes) : PResult × PState × RB → Prop
  | (.frame f, st', rb') =>
      specFrom d st (rb.data ++ fut) = .frame f :: specFrom d st' (rb'.data ++ fut)
        ∧ st' = .start
        ∧ rb'.data.length + 3 ≤ rb.data.length
        ∧ rb'.begin + rb'.data.length = rb.begin + rb.data.length
  | (.err e, _, _) =>
      specFrom d st (rb.data ++ fut) = [.err e]
  | (.none, st', rb') =>
      specFrom d st (rb.data ++ fut) = specFrom d st' (rb'.data ++ fut)
        ∧ rb'.begin + rb'.data.length = rb.begin + rb.data.length
        ∧ rb'.data.length ≤ rb.data.length
        ∧ StOk st' ∧ rb'.data.length < need st'

/-- simulation is preserved along a silent step of the parser (state hop within one call) -/
theorem Sim.hop {d : Dir} {st1 st2 : PState} {rb1 rb2 : RB} {fut : Bytes}
    {r : PResult × PState × RB} (h : Sim d st2 rb2 fut r)
    (hs : specFrom d st1 (rb1.data ++ fut) = specFrom d st2 (rb2.data ++ fut))
    (hl : rb2.data.length ≤ rb1.data.length)
    (hb : rb2.begin + rb2.data.length = rb1.begin + rb1.data.length) : Sim d st1 rb1 fut r := by
  obtain ⟨res, st', rb'⟩ := r
  cases res with
  | none =>
    simp only [Sim] at h ⊢
    obtain ⟨a, b, c, e, f⟩ := h
    exact ⟨hs.trans a, by omega, by omega, e, f⟩
  | frame f =>
    simp only [Sim] at h ⊢
    obtain ⟨a, b, c, e⟩ := h
    exact ⟨hs.trans a, b, by omega, by omega⟩
  | err e =>
    simp only [Sim] at h ⊢
    exact hs.trans h

theorem specBody_append_ready (d : Dir) (dest len : Nat) (a fut : Bytes) (h : ¬ len + 1 > 253)
    (h2 : ¬ a.length < len + 3) :
    specBody d dest len (a ++ fut) =
      (if be16 (a.getD (len + 2) 0) (a.getD (len + 1) 0) ≠ crc (dest :: a.take (len + 1)) then
        [.err (.crcValidationFailure (be16 (a.getD (len + 2) 0) (a.getD (len + 1) 0))
          (crc (dest :: a.take (len + 1))))]
      else .frame ⟨none, dest, a.take (len + 1)⟩ :: specFrames d (a.drop (len + 3) ++ fut)) := by
  have hl : ¬ (a ++ fut).length < len + 3 := by rw [List.length_append]; omega
  simp only [specBody]
  rw [if_neg h, if_neg hl, List.take_append_of_le_length (by omega),
    List.drop_append_of_le_length (by omega), getD_append_left _ _ _ (by omega),
    getD_append_left _ _ _ (by omega)]

theorem parseFullBody_sim (d : Dir) (dest len : Nat) (rb : RB) (fut : Bytes) :
    Sim d (.fullBody dest len) rb fut (parseFullBody dest len rb) := by
  by_cases h : len + 1 > 253
  · rw [parseFullBody_tooBig _ _ _ h]
    simp only [Sim, specFrom, specBody]
    rw [if_pos h]
  · by_cases h2 : rb.data.length < len + 3
    · rw [parseFullBody_short _ _ _ h h2]
      simp only [Sim]
      exact ⟨trivial, trivial, Nat.le_refl _, by simp only [StOk]; omega, by simpa only [need] using h2⟩
    · rw [parseFullBody_ready _ _ _ h h2]
      have hs := specBody_append_ready d dest len rb.data fut h h2
      split
      · rename_i hc
        simp only [Sim, specFrom]
        rw [hs, if_pos hc]
      · rename_i hc
        simp only [Sim, specFrom]
        rw [hs, if_neg hc]
        refine ⟨rfl, trivial, ?_, ?_⟩
        · simp only [RB.consume, List.length_drop]; omega
        · simp only [RB.consume, List.length_drop]; omega

theorem parseToOffset_sim (d : Dir) (dest off : Nat) (rb : RB) (fut : Bytes) (hoff : off ≤ 5) :
    Sim d (.toOffset dest off) rb fut (parseToOffset dest off rb) := by
  by_cases h : rb.data.length < 1 + off
  · rw [parseToOffset_short _ _ _ h]
    simp only [Sim]
    exact ⟨trivial, trivial, Nat.le_refl _, by simpa only [StOk] using hoff, by simpa only [need] using h⟩
  · rw [parseToOffset_ready _ _ _ h]
    refine (parseFullBody_sim d dest (off + rb.data.getD off 0) rb fut).hop ?_ (Nat.le_refl _) rfl
    have : (rb.data ++ fut)[off]? = some (rb.data.getD off 0) := by
      rw [List.getElem?_append_left (by omega), getElem?_eq_some_getD _ _ (by omega)]
    simp only [specFrom, this]

theorem parseStart_sim (d : Dir) (rb : RB) (fut : Bytes) :
    Sim d .start rb fut (parseStart d rb) := by
  by_cases h : rb.data.length < 2
  · rw [parseStart_short _ _ h]
    simp only [Sim]
    exact ⟨trivial, trivial, Nat.le_refl _, trivial, by simpa only [need] using h⟩
  · rw [parseStart_ready _ _ h]
    obtain ⟨b, data⟩ := rb
    match data, h with
    | [], h => simp at h
    | [_], h => simp at h
    | dest :: fc :: t, _ =>
      have hsp := specFrames_cons d dest fc (t ++ fut)
      have hc : (RB.mk b (dest :: fc :: t)).consume 1 = ⟨b + 1, fc :: t⟩ := rfl
      simp only [List.getD_cons_zero, List.getD_cons_succ, hc]
      cases hm : lengthMode d fc with
      | fixed n =>
        rw [hm] at hsp
        simp only
        exact (parseFullBody_sim d dest n ⟨b + 1, fc :: t⟩ fut).hop
          (by simpa [specFrom] using hsp) (by simp) (by simp; omega)
      | offset k =>
        rw [hm] at hsp
        simp only
        exact (parseToOffset_sim d dest k ⟨b + 1, fc :: t⟩ fut
          (lengthMode_offset_le d fc k hm)).hop
          (by simpa [specFrom] using hsp) (by simp) (by simp; omega)
      | unknown =>
        rw [hm] at hsp
        simp only [Sim, specFrom]
        simpa using hsp

theorem parse_sim (d : Dir) (st : PState) (rb : RB) (fut : Bytes) (hst : StOk st) :
    Sim d st rb fut (parse d st rb) := by
  cases st with
  | start => exact parseStart_sim d rb fut
  | toOffset dest off => exact parseToOffset_sim d dest off rb fut hst
  | fullBody dest len => exact parseFullBody_sim d dest len rb fut

/-! ### `read_some` (generic facts about Model/Buffer, restated here) -/

theorem normalize_data (rb : RB) : rb.normalize.data = rb.data := by
  unfold RB.normalize
  by_cases hd : rb.data = [] <;> simp [hd] <;> split <;> simp

theorem normalize_inv (rb : RB) (hinv : rb.begin + rb.data.length ≤ CAP) :
    rb.normalize.begin + rb.data.length ≤ CAP
      ∧ (rb.data.length < CAP → rb.normalize.begin + rb.data.length < CAP) := by
  unfold RB.normalize
  by_cases hd : rb.data = []
  · simp [hd, CAP]
  · simp only [hd, if_false]
    split
    · simp; omega
    · constructor <;> omega

theorem readSome_some (rb : RB) (pend : Bytes) (rb' : RB) (pend' : Bytes)
    (hne : pend ≠ []) (hinv : rb.begin + rb.data.length ≤ CAP)
    (hr : readSome rb pend = some (rb', pend')) :
    rb'.data ++ pend' = rb.data ++ pend ∧ pend'.length < pend.length
      ∧ rb'.begin + rb'.data.length ≤ CAP
      ∧ rb'.data.length + pend'.length = rb.data.length + pend.length := by
  unfold readSome at hr
  have hnd := normalize_data rb
  have hni := (normalize_inv rb hinv).1
  simp only at hr
  split at hr
  · simp at hr
  · rename_i hsp
    simp only [Option.some.injEq, Prod.mk.injEq] at hr
    obtain ⟨h1, h2⟩ := hr
    subst h1; subst h2
    have hpl : 0 < pend.length := List.length_pos_iff.mpr hne
    rw [hnd] at hsp ⊢
    refine ⟨?_, ?_, ?_, ?_⟩
    · simp [List.append_assoc]
    · simp [List.length_drop]; omega
    · simp [List.length_take]; omega
    · simp [List.length_take, List.length_drop]; omega

theorem readSome_ne_none (rb : RB) (pend : Bytes) (hinv : rb.begin + rb.data.length ≤ CAP)
    (hlt : rb.data.length < CAP) : readSome rb pend ≠ Option.none := by
  unfold readSome
  have hnd := normalize_data rb
  have hni := (normalize_inv rb hinv).2 hlt
  simp only
  rw [hnd]
  split
  · omega
  · simp

/-! ### the reader loop -/

/-- `begin ≤ end ≤ capacity` of `ReadBuffer` -/
def Inv (rb : RB) : Prop := rb.begin + rb.data.length ≤ CAP

theorem need_le (st : PState) (h : StOk st) : need st ≤ 255 := by
  cases st <;> simp_all [need, StOk] <;> omega

/-- what one delivery `pend` achieves, in terms of the specification of the whole stream -/
def Post (d : Dir) (st : PState) (rb : RB) (pend fut : Bytes) :
    List Event × Option (PState × RB) → Prop
  | (es, some (st', rb')) =>
      specFrom d st (rb.data ++ (pend ++ fut)) = es ++ specFrom d st' (rb'.data ++ fut)
        ∧ Inv rb' ∧ StOk st' ∧ rb'.data.length < need st'
  | (es, Option.none) =>
      specFrom d st (rb.data ++ (pend ++ fut)) = es

theorem pump_spec (d : Dir) : ∀ (fuel : Nat) (st : PState) (rb : RB) (pend fut : Bytes),
    Inv rb → StOk st →
    3 * pend.length + 2 * rb.data.length + 1 ≤ fuel →
    Post d st rb pend fut (pump (parse d) fuel st rb pend) := by
  intro fuel
  induction fuel with
  | zero => intro st rb pend fut _ _ h; omega
  | succ fuel ih =>
    intro st rb pend fut hinv hst hfuel
    have hsim := parse_sim d st rb (pend ++ fut) hst
    unfold pump
    split
    · -- a frame
      rename_i f st' rb' hp
      rw [hp] at hsim
      simp only [Sim] at hsim
      obtain ⟨h1, h2, h3, h4⟩ := hsim
      have hinv' : Inv rb' := by unfold Inv at *; omega
      have hst' : StOk st' := by subst h2; trivial
      have ih' := ih st' rb' pend fut hinv' hst' (by omega)
      generalize pump (parse d) fuel st' rb' pend = q at ih'
      obtain ⟨es, r⟩ := q
      cases r with
      | none =>
        simp only [Post] at ih' ⊢
        rw [h1, ih']
      | some v =>
        obtain ⟨st2, rb2⟩ := v
        simp only [Post] at ih' ⊢
        obtain ⟨i1, i2, i3, i4⟩ := ih'
        exact ⟨by rw [h1, i1]; simp, i2, i3, i4⟩
    · -- a framing error ends the session
      rename_i e st' rb' hp
      rw [hp] at hsim
      simp only [Sim] at hsim
      simpa only [Post] using hsim
    · -- the parser needs more bytes
      rename_i st' rb' hp
      rw [hp] at hsim
      simp only [Sim] at hsim
      obtain ⟨h1, h2, h3, h4, h5⟩ := hsim
      have hinv' : Inv rb' := by unfold Inv at *; omega
      split
      · rename_i hpe
        subst hpe
        simp only [Post]
        exact ⟨by simpa using h1, hinv', h4, h5⟩
      · rename_i hpe
        have hlt : rb'.data.length < CAP := by
          have := need_le st' h4; simp only [CAP]; omega
        split
        · rename_i hr
          exact absurd hr (readSome_ne_none rb' pend hinv' hlt)
        · rename_i rb'' pend' hr
          obtain ⟨r1, r2, r3, r4⟩ := readSome_some rb' pend rb'' pend' hpe hinv' hr
          have ih' := ih st' rb'' pend' fut r3 h4 (by omega)
          have hstream : rb'.data ++ (pend ++ fut) = rb''.data ++ (pend' ++ fut) := by
            rw [← List.append_assoc, ← r1, List.append_assoc]
          generalize pump (parse d) fuel st' rb'' pend' = q at ih'
          obtain ⟨es, r⟩ := q
          cases r with
          | none =>
            simp only [Post] at ih' ⊢
            rw [h1, hstream, ih']
          | some v =>
            obtain ⟨st2, rb2⟩ := v
            simp only [Post] at ih' ⊢
            obtain ⟨i1, i2, i3, i4⟩ := ih'
            exact ⟨by rw [h1, hstream, i1], i2, i3, i4⟩

/-- a blocked parser has nothing more to report about the bytes it holds -/
theorem blocked_spec (d : Dir) (st : PState) (data : Bytes) (hst : StOk st)
    (hb : data.length < need st) : specFrom d st data = [] := by
  cases st with
  | start => exact specFrames_short d data (by simpa [need] using hb)
  | toOffset dest off =>
    simp only [need] at hb
    have : data[off]? = none := by simp; omega
    simp only [specFrom, this]
  | fullBody dest len =>
    simp only [need] at hb
    simp only [StOk] at hst
    simp only [specFrom, specBody]
    rw [if_neg (by omega), if_pos hb]

theorem runChunks_spec (d : Dir) : ∀ (chunks : List Bytes) (st : PState) (rb : RB),
    Inv rb → StOk st → rb.data.length < need st →
    runChunks (parse d) st rb chunks = specFrom d st (rb.data ++ chunks.flatten) := by
  intro chunks
  induction chunks with
  | nil =>
    intro st rb _ hst hb
    simp [runChunks, blocked_spec d st rb.data hst hb]
  | cons c cs ih =>
    intro st rb hinv hst hb
    have hf : 3 * c.length + 2 * rb.data.length + 1 ≤ fuelFor rb c := by
      unfold fuelFor; omega
    have hp := pump_spec d (fuelFor rb c) st rb c cs.flatten hinv hst hf
    unfold runChunks
    generalize pump (parse d) (fuelFor rb c) st rb c = q at hp
    obtain ⟨es, r⟩ := q
    cases r with
    | none =>
      simp only [Post] at hp
      simp [hp]
    | some v =>
      obtain ⟨st', rb'⟩ := v
      simp only [Post] at hp
      obtain ⟨h1, h2, h3, h4⟩ := hp
      simp only [List.flatten_cons]
      rw [h1, ih st' rb' h2 h3 h4]

/-! ### the `ReadBuffer` guards never fire; no spurious end of file -/

theorem parseFullBody_err (dest len : Nat) (rb : RB) (e : FrameErr) (st' : PState) (rb' : RB)
    (h : parseFullBody dest len rb = (.err e, st', rb')) :
    e = .frameLengthTooBig (len + 1) 253 ∨ ∃ r x, r ≠ x ∧ e = .crcValidationFailure r x := by
  by_cases h1 : len + 1 > 253
  · rw [parseFullBody_tooBig _ _ _ h1] at h
    simp only [Prod.mk.injEq, PResult.err.injEq] at h
    exact Or.inl h.1.symm
  · by_cases h2 : rb.data.length < len + 3
    · rw [parseFullBody_short _ _ _ h1 h2] at h; simp at h
    · rw [parseFullBody_ready _ _ _ h1 h2] at h
      split at h
      · rename_i hc
        simp only [Prod.mk.injEq, PResult.err.injEq] at h
        exact Or.inr ⟨_, _, hc, h.1.symm⟩
      · simp at h

/-- the errors a parser call can report -/
def FramingErr (e : FrameErr) : Prop :=
  (∃ fc, e = .unknownFunctionCode fc) ∨ (∃ n, e = .frameLengthTooBig n 253)
    ∨ ∃ r x, r ≠ x ∧ e = .crcValidationFailure r x

theorem parse_err (d : Dir) (st : PState) (rb : RB) (e : FrameErr) (st' : PState) (rb' : RB)
    (h : parse d st rb = (.err e, st', rb')) : FramingErr e := by
  have fb : ∀ dest len rb, parseFullBody dest len rb = (.err e, st', rb') → FramingErr e := by
    intro dest len rb h
    rcases parseFullBody_err _ _ _ _ _ _ h with h | h
    · exact Or.inr (Or.inl ⟨_, h⟩)
    · exact Or.inr (Or.inr h)
  have off : ∀ dest off rb, parseToOffset dest off rb = (.err e, st', rb') → FramingErr e := by
    intro dest off rb h
    by_cases h1 : rb.data.length < 1 + off
    · rw [parseToOffset_short _ _ _ h1] at h; simp at h
    · rw [parseToOffset_ready _ _ _ h1] at h; exact fb _ _ _ h
  cases st with
  | fullBody dest len => exact fb _ _ _ h
  | toOffset dest o => exact off _ _ _ h
  | start =>
    simp only [parse] at h
    by_cases h1 : rb.data.length < 2
    · rw [parseStart_short _ _ h1] at h; simp at h
    · rw [parseStart_ready _ _ h1] at h
      split at h
      · exact fb _ _ _ h
      · exact off _ _ _ h
      · simp only [Prod.mk.injEq, PResult.err.injEq] at h
        exact Or.inl ⟨_, h.1.symm⟩

/-! ### what an accepted frame looks like -/

theorem u16le_be16 {hi lo : Nat} (h1 : hi < 256) (h2 : lo < 256) :
    u16le (be16 hi lo) = [lo, hi] := by
  unfold u16le be16
  have : (hi * 256 + lo) / 256 % 256 = hi := by omega
  have : (hi * 256 + lo) % 256 = lo := by omega
  simp [*]

/-- `data` starts with the PDU of `f` (`len + 1` bytes) followed by the CRC of address and PDU,
    low byte first, followed by `rest` -/
def Accepted (dest len : Nat) (data : Bytes) (f : Frame) (rest : Bytes) : Prop :=
  f.tx = none ∧ f.dest = dest ∧ f.pdu.length = len + 1 ∧
    ∃ lo hi, data = f.pdu ++ [lo, hi] ++ rest ∧ be16 hi lo = crc (dest :: f.pdu)

theorem Accepted.wf {dest len : Nat} {data : Bytes} {f : Frame} {rest : Bytes}
    (h : Accepted dest len data f rest) (hw : Bytes.WF data) :
    data = f.pdu ++ u16le (crc (f.dest :: f.pdu)) ++ rest := by
  obtain ⟨_, hd, _, lo, hi, h1, h2⟩ := h
  have hw' := hw
  rw [h1] at hw'
  have hlo : lo < 256 := hw' lo (by simp)
  have hhi : hi < 256 := hw' hi (by simp)
  rw [hd, ← h2, u16le_be16 hhi hlo]
  exact h1

theorem parseFullBody_frame (dest len : Nat) (rb : RB) (f : Frame) (st' : PState) (rb' : RB)
    (h : parseFullBody dest len rb = (.frame f, st', rb')) :
    Accepted dest len rb.data f rb'.data ∧ len + 1 ≤ 253 := by
  by_cases h1 : len + 1 > 253
  · rw [parseFullBody_tooBig _ _ _ h1] at h; simp at h
  · by_cases h2 : rb.data.length < len + 3
    · rw [parseFullBody_short _ _ _ h1 h2] at h; simp at h
    · rw [parseFullBody_ready _ _ _ h1 h2] at h
      split at h
      · simp at h
      · rename_i hc
        simp only [Prod.mk.injEq, PResult.frame.injEq] at h
        obtain ⟨hf, _, hr⟩ := h
        subst hf; subst hr
        refine ⟨⟨rfl, rfl, ?_, _, _, ?_, Decidable.of_not_not hc⟩, by omega⟩
        · simp only [List.length_take]; omega
        · exact split_at_pair (len + 1) rb.data (by omega)

theorem parseToOffset_frame (dest off : Nat) (rb : RB) (f : Frame) (st' : PState) (rb' : RB)
    (h : parseToOffset dest off rb = (.frame f, st', rb')) :
    ∃ extra, f.pdu[off]? = some extra ∧ Accepted dest (off + extra) rb.data f rb'.data
      ∧ off + extra + 1 ≤ 253 := by
  by_cases h1 : rb.data.length < 1 + off
  · rw [parseToOffset_short _ _ _ h1] at h; simp at h
  · rw [parseToOffset_ready _ _ _ h1] at h
    obtain ⟨ha, hl⟩ := parseFullBody_frame _ _ _ _ _ _ h
    refine ⟨rb.data.getD off 0, ?_, ha, hl⟩
    obtain ⟨_, _, hlen, lo, hi, hd, _⟩ := ha
    have : rb.data[off]? = f.pdu[off]? := by
      rw [hd, List.append_assoc, List.getElem?_append_left (by omega)]
    rw [← this, getElem?_eq_some_getD _ _ (by omega)]

theorem parseStart_frame (d : Dir) (rb : RB) (f : Frame) (st' : PState) (rb' : RB)
    (h : parseStart d rb = (.frame f, st', rb')) :
    ∃ n, frameLen? d rb.data = .len n ∧ n + 1 ≤ 253
      ∧ Accepted (rb.data.headD 0) n (rb.data.drop 1) f rb'.data := by
  by_cases h1 : rb.data.length < 2
  · rw [parseStart_short _ _ h1] at h; simp at h
  · rw [parseStart_ready _ _ h1] at h
    obtain ⟨b, data⟩ := rb
    match data, h1 with
    | [], h1 => simp at h1
    | [_], h1 => simp at h1
    | dest :: fc :: t, _ =>
      have hc : (RB.mk b (dest :: fc :: t)).consume 1 = ⟨b + 1, fc :: t⟩ := rfl
      simp only [List.getD_cons_zero, List.getD_cons_succ, hc] at h
      simp only [List.headD_cons, List.drop_succ_cons, List.drop_zero]
      cases hm : lengthMode d fc with
      | fixed n =>
        rw [hm] at h
        obtain ⟨ha, hl⟩ := parseFullBody_frame _ _ _ _ _ _ h
        exact ⟨n, by simp [frameLen?, hm], hl, ha⟩
      | offset k =>
        rw [hm] at h
        obtain ⟨extra, he, ha, hl⟩ := parseToOffset_frame _ _ _ _ _ _ h
        refine ⟨k + extra, ?_, hl, ha⟩
        obtain ⟨_, _, hlen, lo, hi, hd, _⟩ := ha
        have hd' : fc :: t = f.pdu ++ [lo, hi] ++ rb'.data := hd
        have : (fc :: t)[k]? = some extra := by
          rw [hd', List.append_assoc, List.getElem?_append_left (by omega)]; exact he
        simp [frameLen?, hm, this]
      | unknown => rw [hm] at h; simp at h

/-! ### the whole-stream specification, one frame at a time -/

theorem frameLen?_cons_of_len (d : Dir) (s : Bytes) (n : Nat) (h : frameLen? d s = .len n) :
    ∃ dest fc t, s = dest :: fc :: t := by
  match s, h with
  | [], h => simp [frameLen?] at h
  | [_], h => simp [frameLen?] at h
  | dest :: fc :: t, _ => exact ⟨dest, fc, t, rfl⟩

/-- once the head frame is delimited, later bytes do not change its length -/
theorem frameLen?_append (d : Dir) (a b : Bytes) (n : Nat) (h : frameLen? d a = .len n) :
    frameLen? d (a ++ b) = .len n := by
  obtain ⟨dest, fc, t, rfl⟩ := frameLen?_cons_of_len d a n h
  simp only [frameLen?, List.cons_append] at h ⊢
  cases hm : lengthMode d fc with
  | fixed m => rw [hm] at h; simpa using h
  | unknown => rw [hm] at h; simp at h
  | offset k =>
    rw [hm] at h
    simp only at h ⊢
    cases hk : (fc :: t)[k]? with
    | none => rw [hk] at h; simp at h
    | some extra =>
      rw [hk] at h
      have hlt : k < (fc :: t).length := by
        apply Nat.lt_of_not_le; intro hc
        rw [List.getElem?_eq_none hc] at hk; simp at hk
      have : (fc :: (t ++ b))[k]? = some extra := by
        rw [← List.cons_append, List.getElem?_append_left hlt]; exact hk
      rw [this]; simpa using h

/-- the length of the head frame depends only on the bytes of that frame -/
theorem frameLen?_prefix (d : Dir) (a b : Bytes) (n : Nat) (h : frameLen? d (a ++ b) = .len n)
    (hl : n + 2 ≤ a.length) : frameLen? d a = .len n := by
  match a, hl with
  | [], hl => simp at hl
  | [_], hl => simp at hl
  | dest :: fc :: t, hl =>
    simp only [frameLen?, List.cons_append] at h ⊢
    cases hm : lengthMode d fc with
    | fixed m => rw [hm] at h; simpa using h
    | unknown => rw [hm] at h; simp at h
    | offset k =>
      rw [hm] at h
      simp only at h ⊢
      cases hk : (fc :: (t ++ b))[k]? with
      | none => rw [hk] at h; simp at h
      | some extra =>
        rw [hk] at h
        simp only [Delim.len.injEq] at h
        have hlt : k < (fc :: t).length := by simp at hl ⊢; omega
        have : (fc :: t)[k]? = some extra := by
          rw [← List.cons_append, List.getElem?_append_left hlt] at hk; exact hk
        rw [this]; simp [h]

theorem getD_append_len (a t : Bytes) (x : Nat) (m : Nat) (h : a.length = m) :
    (a ++ x :: t).getD m 0 = x := by
  subst h
  simp [List.getD_eq_getElem?_getD]

/-- the specification at a stream that starts with `pdu ++ [lo, hi]`, `pdu` of the delimited
    length: the CRC check decides -/
theorem specBody_span (d : Dir) (dest n : Nat) (pdu : Bytes) (lo hi : Nat) (rest : Bytes)
    (hl : pdu.length = n + 1) (hn : n + 1 ≤ 253) :
    specBody d dest n (pdu ++ [lo, hi] ++ rest) =
      if be16 hi lo ≠ crc (dest :: pdu) then
        [.err (.crcValidationFailure (be16 hi lo) (crc (dest :: pdu)))]
      else .frame ⟨none, dest, pdu⟩ :: specFrames d rest := by
  have e : pdu ++ [lo, hi] ++ rest = pdu ++ lo :: hi :: rest := by simp
  have e2 : pdu ++ lo :: hi :: rest = (pdu ++ [lo]) ++ hi :: rest := by simp
  have g1 : (pdu ++ lo :: hi :: rest).getD (n + 1) 0 = lo := getD_append_len _ _ _ _ hl
  have g2 : (pdu ++ lo :: hi :: rest).getD (n + 2) 0 = hi := by
    rw [e2]; exact getD_append_len _ _ _ _ (by simp; omega)
  have g3 : (pdu ++ lo :: hi :: rest).drop (n + 3) = rest := by
    have : pdu ++ lo :: hi :: rest = (pdu ++ [lo, hi]) ++ rest := by simp
    rw [this]; exact List.drop_left' (by simp; omega)
  have g4 : (pdu ++ lo :: hi :: rest).take (n + 1) = pdu := List.take_left' hl
  have g5 : ¬ (pdu ++ lo :: hi :: rest).length < n + 3 := by simp; omega
  rw [e]
  simp only [specBody]
  rw [if_neg (by omega), if_neg g5, g1, g2, g3, g4]

/-- one unfolding of the specification -/
theorem specFrames_cases (d : Dir) (s : Bytes) :
    specFrames d s = []
    ∨ (∃ e, FramingErr e ∧ specFrames d s = [.err e])
    ∨ ∃ dest pdu lo hi rest n, s = dest :: pdu ++ [lo, hi] ++ rest ∧ frameLen? d s = .len n
        ∧ pdu.length = n + 1 ∧ n + 1 ≤ 253 ∧ be16 hi lo = crc (dest :: pdu)
        ∧ specFrames d s = .frame ⟨none, dest, pdu⟩ :: specFrames d rest := by
  cases h : frameLen? d s with
  | more => left; rw [specFrames, h]
  | bad fc => right; left; exact ⟨_, Or.inl ⟨fc, rfl⟩, by rw [specFrames, h]⟩
  | len n =>
    obtain ⟨dest, fc, t, rfl⟩ := frameLen?_cons_of_len d s n h
    rw [specFrames_len d _ n h]
    simp only [List.headD_cons, List.drop_succ_cons, List.drop_zero]
    by_cases h1 : n + 1 > 253
    · right; left
      exact ⟨_, Or.inr (Or.inl ⟨n + 1, rfl⟩), by simp only [specBody]; rw [if_pos h1]⟩
    · by_cases h2 : (fc :: t).length < n + 3
      · left; simp only [specBody]; rw [if_neg h1, if_pos h2]
      · have hsplit := split_at_pair (n + 1) (fc :: t) (by omega)
        have hpl : ((fc :: t).take (n + 1)).length = n + 1 := by
          rw [List.length_take]; omega
        rw [hsplit, specBody_span d dest n _ _ _ _ hpl (by omega)]
        split
        · rename_i hc
          right; left
          exact ⟨_, Or.inr (Or.inr ⟨_, _, hc, rfl⟩), rfl⟩
        · rename_i hc
          right; right
          refine ⟨dest, (fc :: t).take (n + 1), _, _, (fc :: t).drop (n + 1 + 2), n, ?_, ?_, hpl,
            by omega, Decidable.of_not_not hc, rfl⟩
          · simp only [List.cons_append]
          · rfl

/-! ### stream-level consequences -/

theorem specFrames_err_mem (d : Dir) : ∀ (n : Nat) (s : Bytes), s.length ≤ n →
    ∀ e, Event.err e ∈ specFrames d s → FramingErr e := by
  intro n
  induction n with
  | zero =>
    intro s hs e he
    rw [specFrames_short d s (by omega)] at he; simp at he
  | succ n ih =>
    intro s hs e he
    rcases specFrames_cases d s with h | ⟨e', hf, h⟩ | ⟨dest, pdu, lo, hi, rest, m, hs', _, _, _, _, h⟩
    · rw [h] at he; simp at he
    · rw [h] at he
      simp only [List.mem_singleton, Event.err.injEq] at he
      subst he; exact hf
    · rw [h] at he
      simp only [List.mem_cons, reduceCtorEq, false_or] at he
      refine ih rest ?_ e he
      rw [hs'] at hs; simp at hs; omega

theorem format_eq (dest : Nat) (pdu : Bytes) :
    format dest pdu = dest :: pdu ++ u16le (crc (dest :: pdu)) := rfl

theorem format_length (dest : Nat) (pdu : Bytes) : (format dest pdu).length = pdu.length + 3 := by
  simp [format, u16le]

theorem specFrames_frame_mem (d : Dir) : ∀ (n : Nat) (s : Bytes), s.length ≤ n → Bytes.WF s →
    ∀ f, Event.frame f ∈ specFrames d s →
      ∃ pre post, s = pre ++ format f.dest f.pdu ++ post ∧ f.tx = none
        ∧ frameSpan d (format f.dest f.pdu) = some (format f.dest f.pdu).length := by
  intro n
  induction n with
  | zero =>
    intro s hs _ f hf
    rw [specFrames_short d s (by omega)] at hf; simp at hf
  | succ n ih =>
    intro s hs hw f hf
    rcases specFrames_cases d s with h | ⟨e', _, h⟩ | ⟨dest, pdu, lo, hi, rest, m, hs', hfl, hpl, _, hcrc, h⟩
    · rw [h] at hf; simp at hf
    · rw [h] at hf; simp at hf
    · have hw' := hw
      rw [hs'] at hw'
      have hlo : lo < 256 := hw' lo (by simp)
      have hhi : hi < 256 := hw' hi (by simp)
      have hrest : Bytes.WF rest := fun b hb => hw' b (by simp [hb])
      have hfmt : s = format dest pdu ++ rest := by
        rw [hs', format_eq, ← hcrc, u16le_be16 hhi hlo]
      rw [h] at hf
      simp only [List.mem_cons, Event.frame.injEq] at hf
      rcases hf with hf | hf
      · subst hf
        refine ⟨[], rest, by simpa using hfmt, rfl, ?_⟩
        have hl : (format dest pdu).length = m + 4 := by rw [format_length]; omega
        have := frameLen?_prefix d (format dest pdu) rest m (by rw [← hfmt]; exact hfl) (by omega)
        simp only [frameSpan, this, hl]
      · obtain ⟨pre, post, hp, ht, hsp⟩ := ih rest (by rw [hs'] at hs; simp at hs; omega) hrest f hf
        exact ⟨format dest pdu ++ pre, post, by rw [hfmt, hp]; simp, ht, hsp⟩

/-- a well-formed PDU delimits exactly itself -/
theorem WellFormedPdu.frameLen {d : Dir} {pdu : Bytes} (h : WellFormedPdu d pdu) :
    ∃ n, pdu.length = n + 1 ∧ n + 1 ≤ 253 ∧ ∀ dest t, frameLen? d (dest :: pdu ++ t) = .len n := by
  obtain ⟨_, hl, hr⟩ := h
  cases pdu with
  | nil => simp [pduLenRule] at hr
  | cons fc body =>
    simp only [pduLenRule] at hr
    cases hm : lengthMode d fc with
    | fixed n =>
      rw [hm] at hr
      simp only [Option.some.injEq] at hr
      exact ⟨n, by omega, by omega, fun dest t => by simp [frameLen?, hm]⟩
    | unknown => rw [hm] at hr; simp at hr
    | offset k =>
      rw [hm] at hr
      simp only at hr
      cases hk : (fc :: body)[k]? with
      | none => rw [hk] at hr; simp at hr
      | some extra =>
        rw [hk] at hr
        simp only [Option.some.injEq] at hr
        refine ⟨k + extra, by omega, by omega, fun dest t => ?_⟩
        have : (fc :: (body ++ t))[k]? = some extra := by
          rw [← List.cons_append, List.getElem?_append_left (by omega)]; exact hk
        simp [frameLen?, hm, this]

theorem specFrames_format (d : Dir) (dest : Nat) (pdu rest : Bytes) (hd : dest < 256)
    (h : WellFormedPdu d pdu) :
    specFrames d (format dest pdu ++ rest) = .frame ⟨none, dest, pdu⟩ :: specFrames d rest := by
  obtain ⟨n, hl, hn, hfl⟩ := h.frameLen
  have hc : crc (dest :: pdu) < 65536 := crc_lt _ (Bytes.WF_cons.2 ⟨hd, h.1⟩)
  have e : format dest pdu ++ rest
      = dest :: (pdu ++ ([crc (dest :: pdu) % 256, crc (dest :: pdu) / 256 % 256] ++ rest)) := by
    simp [format, u16le]
  have hfl' := hfl dest ([crc (dest :: pdu) % 256, crc (dest :: pdu) / 256 % 256] ++ rest)
  rw [List.cons_append] at hfl'
  rw [e, specFrames_len d _ n hfl']
  simp only [List.headD_cons, List.drop_succ_cons, List.drop_zero]
  rw [← List.append_assoc, specBody_span d dest n pdu _ _ rest hl hn, be16_u16be hc]
  simp

/-- a list of `n + 4` bytes is address, `n + 1` PDU bytes and two trailer bytes -/
theorem span_decomp (l : Bytes) (n : Nat) (h : l.length = n + 4) :
    ∃ dest pdu lo hi, l = dest :: pdu ++ [lo, hi] ∧ pdu.length = n + 1 := by
  cases l with
  | nil => simp at h
  | cons dest body =>
    have hb : body.length = n + 3 := by simpa using h
    have hs := split_at_pair (n + 1) body (by omega)
    have hd : body.drop (n + 1 + 2) = [] := List.drop_of_length_le (by omega)
    rw [hd, List.append_nil] at hs
    exact ⟨dest, body.take (n + 1), _, _, by rw [List.cons_append, ← hs], by rw [List.length_take]; omega⟩

/-- byte-level core of C06: a frame `body ++ crc(body)` hit by a detectable error pattern does not
    pass the receiver's comparison of the trailer with the CRC of what precedes it -/
theorem corrupted_trailer_mismatch (body e body' : Bytes) (lo hi : Nat)
    (hb : Bytes.WF body) (he : Bytes.WF e) (hl : e.length = body.length + 2)
    (hpat : SingleBit e ∨ Burst16 e ∨ (DoubleBit e ∧ e.length ≤ 262))
    (hx : xorBytes (body ++ u16le (crc body)) e = body' ++ [lo, hi]) :
    be16 hi lo ≠ crc body' := by
  have hf : Bytes.WF (body ++ u16le (crc body)) := Bytes.WF_append.2 ⟨hb, u16le_wf _⟩
  have hfl : (body ++ u16le (crc body)).length = e.length := by simp [u16le]; omega
  have hne := corrupted_residue_ne_zero _ e hf he hfl (crc_valid_frame body hb) hpat
  have hxw := xorBytes_wf _ e hf he
  rw [hx] at hne hxw
  have hlo : lo < 256 := hxw lo (by simp)
  have hhi : hi < 256 := hxw hi (by simp)
  have hb' : Bytes.WF body' := (Bytes.WF_append.1 hxw).1
  intro hc
  apply hne
  rw [← u16le_be16 hhi hlo]
  exact (crc_trailer_zero_iff body' _ (be16_lt hhi hlo) hb').2 hc

theorem specFrames_corrupted (d : Dir) (dest : Nat) (pdu e rest : Bytes) (hd : dest < 256)
    (hp : WellFormedPdu d pdu) (he : Bytes.WF e) (hl : e.length = (format dest pdu).length)
    (hpat : SingleBit e ∨ Burst16 e ∨ DoubleBit e)
    (hspan : frameSpan d (xorBytes (format dest pdu) e) = some (format dest pdu).length) :
    ∃ r x, r ≠ x ∧ specFrames d (xorBytes (format dest pdu) e ++ rest)
      = [.err (.crcValidationFailure r x)] := by
  obtain ⟨n, hn, hn253, _⟩ := hp.frameLen
  have hfl : (format dest pdu).length = n + 4 := by rw [format_length]; omega
  have hxl : (xorBytes (format dest pdu) e).length = n + 4 := by
    rw [xorBytes_length _ _ hl.symm, hfl]
  obtain ⟨dest', pdu', lo, hi, hx, hpl'⟩ := span_decomp _ n hxl
  have hlen : frameLen? d (xorBytes (format dest pdu) e) = .len n := by
    simp only [frameSpan] at hspan
    split at hspan
    · rename_i m hm
      simp only [Option.some.injEq] at hspan
      have : m = n := by omega
      rw [hm, this]
    · simp at hspan
  have hmis : be16 hi lo ≠ crc (dest' :: pdu') := by
    refine corrupted_trailer_mismatch (dest :: pdu) e (dest' :: pdu') lo hi
      (Bytes.WF_cons.2 ⟨hd, hp.1⟩) he (by rw [hl, format_length]; simp) ?_ (by rw [← hx]; rfl)
    rcases hpat with h | h | h
    · exact Or.inl h
    · exact Or.inr (Or.inl h)
    · exact Or.inr (Or.inr ⟨h, by omega⟩)
  refine ⟨_, _, hmis, ?_⟩
  rw [specFrames_len d _ n (frameLen?_append d _ rest n hlen), hx]
  simp only [List.cons_append, List.headD_cons, List.drop_succ_cons, List.drop_zero]
  rw [specBody_span d dest' n pdu' lo hi rest hpl' hn253, if_pos hmis]

/-- conversely, a PDU whose emitted frame delimits exactly itself is well formed -/
theorem wellFormedPdu_of_span (d : Dir) (dest : Nat) (pdu : Bytes) (hw : Bytes.WF pdu)
    (hl : pdu.length ≤ 253)
    (h : frameSpan d (format dest pdu) = some (format dest pdu).length) : WellFormedPdu d pdu := by
  refine ⟨hw, hl, ?_⟩
  rw [format_length] at h
  simp only [frameSpan] at h
  split at h
  · rename_i n hn
    simp only [Option.some.injEq] at h
    cases pdu with
    | nil => simp at h
    | cons fc body =>
      simp only [format, List.cons_append, frameLen?] at hn
      simp only [pduLenRule]
      cases hm : lengthMode d fc with
      | fixed m =>
        rw [hm] at hn
        simp only [Delim.len.injEq] at hn
        simp only [List.length_cons] at h ⊢
        congr 1; omega
      | unknown => rw [hm] at hn; simp at hn
      | offset k =>
        rw [hm] at hn
        simp only at hn ⊢
        cases hk : (fc :: (body ++ u16le (crc (dest :: fc :: body))))[k]? with
        | none => rw [hk] at hn; simp at hn
        | some extra =>
          rw [hk] at hn
          simp only [Delim.len.injEq] at hn
          have hlt : k < (fc :: body).length := by simp only [List.length_cons] at h ⊢; omega
          rw [← List.cons_append, List.getElem?_append_left hlt] at hk
          rw [hk]
          simp only [List.length_cons] at h ⊢
          congr 1; omega
  · simp at h

theorem WellFormedPdu.span {d : Dir} {pdu : Bytes} (h : WellFormedPdu d pdu) (dest : Nat) :
    frameSpan d (format dest pdu) = some (format dest pdu).length := by
  obtain ⟨n, hl, _, hfl⟩ := h.frameLen
  have := hfl dest (u16le (crc (dest :: pdu)))
  rw [← format_eq] at this
  simp only [frameSpan, this, format_length]
  congr 1; omega

end Rodbus.Rtu
