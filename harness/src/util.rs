use rodbus::*;

pub fn hex(bytes: &[u8]) -> String {
    if bytes.is_empty() {
        return "-".to_string();
    }
    let mut s = String::with_capacity(bytes.len() * 2);
    for b in bytes {
        s.push_str(&format!("{b:02x}"));
    }
    s
}

pub fn unhex(s: &str) -> Vec<u8> {
    if s == "-" {
        return vec![];
    }
    assert!(s.len() % 2 == 0, "odd hex: {s}");
    (0..s.len() / 2)
        .map(|i| u8::from_str_radix(&s[2 * i..2 * i + 2], 16).unwrap())
        .collect()
}

/// `dXYZ`: X = app level 0..3, Y = frame 0..2, Z = phys 0..2
pub fn decode_level(tok: &str) -> DecodeLevel {
    let d: Vec<u32> = tok[1..].chars().map(|c| c.to_digit(10).unwrap()).collect();
    let app = match d[0] {
        0 => AppDecodeLevel::Nothing,
        1 => AppDecodeLevel::FunctionCode,
        2 => AppDecodeLevel::DataHeaders,
        _ => AppDecodeLevel::DataValues,
    };
    let frame = match d[1] {
        0 => FrameDecodeLevel::Nothing,
        1 => FrameDecodeLevel::Header,
        _ => FrameDecodeLevel::Payload,
    };
    let phys = match d[2] {
        0 => PhysDecodeLevel::Nothing,
        1 => PhysDecodeLevel::Length,
        _ => PhysDecodeLevel::Data,
    };
    DecodeLevel::new(app, frame, phys)
}

pub fn frame_err(e: FrameParseError) -> &'static str {
    match e {
        FrameParseError::MbapLengthZero => "bf.lenzero",
        FrameParseError::FrameLengthTooBig(_, _) => "bf.toobig",
        FrameParseError::UnknownProtocolId(_) => "bf.proto",
        FrameParseError::UnknownFunctionCode(_) => "bf.unkfc",
        FrameParseError::CrcValidationFailure(_, _) => "bf.crc",
    }
}

pub fn io_kind(k: std::io::ErrorKind) -> String {
    match k {
        std::io::ErrorKind::UnexpectedEof => "io.eof".to_string(),
        std::io::ErrorKind::ConnectionReset => "io.reset".to_string(),
        // the scripted transport injects these two kinds as WRITE errors only: one class
        std::io::ErrorKind::BrokenPipe | std::io::ErrorKind::Interrupted => "io.pipe".to_string(),
        _ => "io.other".to_string(),
    }
}

/// canonical form of a `RequestError`
pub fn req_err(e: RequestError) -> String {
    match e {
        RequestError::Io(k) => io_kind(k),
        RequestError::Exception(x) => format!("exc.{}", u8::from(x)),
        RequestError::BadRequest(x) => match x {
            InvalidRequest::BadRange(InvalidRange::CountOfZero) => "badreq.zero".into(),
            InvalidRequest::BadRange(InvalidRange::AddressOverflow(_, _)) => "badreq.overflow".into(),
            InvalidRequest::BadRange(InvalidRange::CountTooLargeForType(_, _)) => {
                "badreq.toolarge".into()
            }
            InvalidRequest::CountTooBigForU16(_) => "badreq.u16".into(),
            InvalidRequest::CountTooBigForType(_, _) => "badreq.type".into(),
        },
        RequestError::BadFrame(x) => frame_err(x).to_string(),
        RequestError::BadResponse(_) => "badresp".into(),
        RequestError::Internal(_) => "internal".into(),
        RequestError::ResponseTimeout => "timeout".into(),
        RequestError::NoConnection => "noconn".into(),
        RequestError::Shutdown => "shutdown".into(),
    }
}

pub fn kv<'a>(tokens: &'a [&'a str], key: &str) -> Option<&'a str> {
    tokens
        .iter()
        .find_map(|t| t.strip_prefix(key).and_then(|r| r.strip_prefix('=')))
}

pub async fn settle_n(n: usize) {
    for _ in 0..n {
        tokio::task::yield_now().await;
    }
}
