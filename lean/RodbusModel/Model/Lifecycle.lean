import RodbusModel.Model.Retry
/-
  M8 (outer loop): `TcpChannelTask::{run, run_inner, connect, try_connect_and_run,
  run_connection, handle_failed_connection}` (tcp/client.rs) together with the command handling of
  `ClientLoop::{wait_for_enabled, fail_next_request, fail_requests_for, run, poll, run_cmd}` at the
  granularity of whole requests.  The connection-state listener is a lock-step gate: the task is
  blocked inside `listener.update(..)` until the environment releases it.

  Time is abstracted to "which timer fires next"; the peer is one of seven behaviours per
  connection attempt.  Serial channels (`SerialChannelTask`) have the same structure with
  `PortState::{Disabled, Wait, Open, Shutdown}`.

  TLS channels are the same task with `TcpTaskConnectionHandler::Tls`: the handshake runs inside
  `try_connect_and_run` after the TCP connect succeeded, and its failure goes through
  `handle_failed_connection` exactly like a refused connect (`Behaviour.hsfail`).  The command
  queue also carries `Setting::DecodeLevel` (`Cmd.decode`), which changes the decode level and
  nothing else, in every phase.

  The connection (`PhysLayer`) is an object of the state: `conn` is set when the attempt has
  succeeded (the state `Connected` is announced next) and cleared when `run_connection` drops it,
  which is always BEFORE the next state is announced; the peer sees the close, and the
  environment reads that off at the next callback (`Ev.closed`, logged by `stop` in front of the
  gate event).

  `ClientLoop::poll` is a `tokio::select!` over the socket and the command queue: when the peer
  has already closed / sent garbage AND a command is queued (or every handle is gone), either
  branch may win.  The resolution is taken from the scheduler coin list `coins` (`true`: the
  socket first); every theorem quantifies over all coin lists.

  After the task has ended (`Pos.done`) the handles still exist: `stop` applies the user's actions
  there as well (`applyDone`): a request completes with `shutdown` at once, everything else is
  refused with `shutdown`, nothing is announced.
-/
namespace Rodbus.Life

/-- `hsfail`: the TCP connect succeeds, the connection handler (TLS handshake) fails.
    `serveN k false`: the peer answers `k` requests and closes right after the `k`-th reply;
    `serveN k true`: it answers `k` requests and closes when it RECEIVES the next one (that
    request is in flight when the connection is lost). -/
inductive Behaviour | refuse | close | garbage | silent | serve | hsfail
  | serveN (k : Nat) (wait : Bool)
deriving DecidableEq, Repr

/-- the attempt ends in `handle_failed_connection`: `connect()` returned an error, or the
    connection handler (TLS handshake) did -/
def Behaviour.fails : Behaviour → Bool
  | .refuse | .hsfail => true
  | _ => false

/-- the peer has closed its side / sent its garbage: the socket branch of `poll` is ready
    (`served`: requests answered on this connection) -/
def Behaviour.gone (b : Behaviour) (served : Nat) : Bool :=
  match b with
  | .close | .garbage => true
  | .serveN k false => decide (k ≤ served)
  | _ => false

/-- the peer closes when it receives the next request -/
def Behaviour.dropsNext (b : Behaviour) (served : Nat) : Bool :=
  match b with
  | .serveN k true => decide (k ≤ served)
  | _ => false

/-- what a request in flight fails with when the connection is lost under it -/
def Behaviour.lostErr : Behaviour → String
  | .garbage => "bf.proto"
  | _ => "io.eof"

/-- what the user does through a handle -/
inductive Action
  | enable | disable | shutdown | dropAll | request (id : Nat) | setDecode (lvl : Nat)
deriving DecidableEq, Repr

/-- commands in the mpsc queue -/
inductive Cmd
  | enable | disable | shutdown | request (id : Nat) | decode (lvl : Nat)
deriving DecidableEq, Repr

/-- `ClientState` -/
inductive St
  | disabled | connecting | connected | waitFail (d : Nat) | waitDisc (d : Nat) | shutdown
deriving DecidableEq, Repr

/-- observable events.  `closed`: the peer of the connection announced last has seen the client
    close it; `refused a`: the call `a` through a handle returned `Shutdown` (the task is gone) -/
inductive Ev
  | gate (s : St)
  | idle
  | act (a : Action)
  | done (id : Nat) (res : String)
  | closed
  | refused (a : Action)
deriving DecidableEq, Repr

/-- what the task does next once it is released / woken -/
inductive Phase
  | waitEnabled                 -- `wait_for_enabled`
  | connect                     -- after `Connecting`: `connect()` (fail_requests ‖ host.connect)
  | sessionStart (b : Behaviour) -- after `Connected`: reset retry, `ClientLoop::run`
  | session (b : Behaviour)      -- inside `ClientLoop::run`
  | failFor                      -- after a wait state: `fail_requests_for(delay)`
  | afterDisable                 -- `if !is_enabled { update(Disabled) }` then loop
  | finished
deriving DecidableEq, Repr

/-- where the task is blocked -/
inductive Pos
  | gate (s : St) (next : Phase)
  | idle (resume : Phase)
  | done
deriving DecidableEq, Repr

structure S where
  enabled : Bool := false
  queue : List Cmd := []
  handles : Bool := true
  retry : Retry.Doubling
  behaviours : List Behaviour
  /-- the peer behaviour in force for the connection attempt announced last -/
  cur : Behaviour := .serve
  maxto : Nat := 0
  tcount : Nat := 0
  /-- the task has not terminated -/
  alive : Bool := true
  /-- `ClientLoop::decode` (an opaque level number) -/
  decode : Nat := 0
  log : List Ev := []
  /-- the connection object (`PhysLayer`) exists -/
  conn : Bool := false
  /-- the peer has seen the connection closed by the client; not yet read off by the environment -/
  unreported : Bool := false
  /-- requests answered on the current connection -/
  served : Nat := 0
  /-- scheduler coins for `select!` in `ClientLoop::poll` (`true`: the socket branch wins);
      `true` when the list is exhausted -/
  coins : List Bool := []
  /-- number of coins asked for after the list was exhausted (used by the driver to enumerate) -/
  starved : Nat := 0
deriving Repr

def S.emit (s : S) (e : Ev) : S := { s with log := s.log ++ [e] }

/-- the next scheduler coin -/
def S.coinVal (s : S) : Bool := s.coins.headD true

def S.coinPop (s : S) : S :=
  { s with coins := s.coins.tail, starved := if s.coins.isEmpty then s.starved + 1 else s.starved }

/-- `run_connection` returns: the `PhysLayer` is dropped, the peer sees EOF -/
def S.closeConn (s : S) : S := { s with conn := false, unreported := true }

def nextBehaviour (s : S) : Behaviour × S :=
  match s.behaviours with
  | [] => (.serve, s)
  | [b] => (b, s)
  | b :: rest => (b, { s with behaviours := rest })

/-- every queued request is dropped, i.e. completed with Shutdown -/
def flush (s : S) : S :=
  s.queue.foldl (fun s c => match c with
    | .request id => s.emit (.done id "shutdown")
    | _ => s) s

/-- one iteration of the task: carry on in a phase, or block -/
inductive Res
  | cont (ph : Phase) (s : S)
  | halt (s : S) (pos : Pos)

/-- the session ends with an I/O error, a bad frame or the timeout limit: the connection is
    dropped, `WaitAfterDisconnect(after_disconnect())` is announced -/
def lost (s : S) : Res :=
  .halt s.closeConn (.gate (.waitDisc (Retry.afterDisconnect s.retry)) .failFor)

/-- one iteration of the task -/
def step (ph : Phase) (s : S) : Res :=
  match ph with
  | .finished =>
    -- the task is gone: every queued request is dropped, i.e. completed with Shutdown
    .halt { flush s with queue := [], alive := false } .done
  | .afterDisable => .halt s (.gate .disabled .waitEnabled)
  | .waitEnabled =>
    if s.enabled then
      -- the environment of an attempt is fixed when the attempt is announced
      .halt { (nextBehaviour s).2 with cur := (nextBehaviour s).1 } (.gate .connecting .connect)
    else match s.queue with
      | [] => if s.handles then .halt s (.idle .waitEnabled) else .halt s (.gate .shutdown .finished)
      | c :: q =>
        match c with
        | .request id => .cont .waitEnabled ({ s with queue := q }.emit (.done id "noconn"))
        | .enable => .cont .waitEnabled { s with queue := q, enabled := true }
        | .disable => .cont .waitEnabled { s with queue := q }
        | .decode l => .cont .waitEnabled { s with queue := q, decode := l }
        | .shutdown => .halt { s with queue := q } (.gate .shutdown .finished)
  | .connect =>
    -- queued commands are served by `fail_requests` before the connect result is looked at
    match s.queue with
    | c :: q =>
      match c with
      | .request id => .cont .connect ({ s with queue := q }.emit (.done id "noconn"))
      | .enable => .cont .connect { s with queue := q }
      | .decode l => .cont .connect { s with queue := q, decode := l }
      | .disable => .cont .afterDisable { s with queue := q, enabled := false }
      | .shutdown => .halt { s with queue := q } (.gate .shutdown .finished)
    | [] =>
      if !s.handles then .halt s (.gate .shutdown .finished)
      else if s.cur.fails then
        -- refused connect or failed handshake: `handle_failed_connection`
        .halt { s with retry := (Retry.afterFailedConnect s.retry).2 }
          (.gate (.waitFail (Retry.afterFailedConnect s.retry).1) .failFor)
      else .halt { s with conn := true } (.gate .connected (.sessionStart s.cur))
  | .sessionStart b =>
    .cont (.session b) { s with retry := Retry.reset s.retry, tcount := 0, served := 0 }
  | .session b =>
    if b.fails then .halt s (.idle (.session b))   -- not reachable
    else if b.gone s.served then
      -- the socket branch of `poll` is ready (EOF / garbage); so may be the command branch
      match s.queue with
      | [] =>
        if s.handles then lost s
        else if s.coinVal then lost s.coinPop
        else .halt s.coinPop.closeConn (.gate .shutdown .finished)
      | c :: q =>
        if s.coinVal then lost s.coinPop
        else
          match c with
          | .enable => .cont (.session b) { s.coinPop with queue := q }
          | .decode l => .cont (.session b) { s.coinPop with queue := q, decode := l }
          | .disable => .cont .afterDisable { s.coinPop.closeConn with queue := q, enabled := false }
          | .shutdown => .halt { s.coinPop.closeConn with queue := q } (.gate .shutdown .finished)
          | .request id =>
            -- written to a peer that is gone: the transport error fails it and ends the session
            lost ({ s.coinPop with queue := q }.emit (.done id b.lostErr))
    else
      match s.queue with
      | [] =>
        if s.handles then .halt s (.idle (.session b))
        else .halt s.closeConn (.gate .shutdown .finished)
      | c :: q =>
        match c with
        | .enable => .cont (.session b) { s with queue := q }
        | .decode l => .cont (.session b) { s with queue := q, decode := l }
        | .disable => .cont .afterDisable { s.closeConn with queue := q, enabled := false }
        | .shutdown => .halt { s.closeConn with queue := q } (.gate .shutdown .finished)
        | .request id =>
          if b = .silent then
            if s.maxto ≠ 0 ∧ s.tcount + 1 ≥ s.maxto then
              lost ({ s with queue := q, tcount := s.tcount + 1 }.emit (.done id "timeout"))
            else .cont (.session b) ({ s with queue := q, tcount := s.tcount + 1 }.emit (.done id "timeout"))
          else if b.dropsNext s.served then
            -- the peer closes on receiving the request: it is in flight when the connection is lost
            lost ({ s with queue := q }.emit (.done id "io.eof"))
          else
            .cont (.session b)
              ({ s with queue := q, tcount := 0, served := s.served + 1 }.emit (.done id "ok.4660"))
  | .failFor =>
    match s.queue with
    | c :: q =>
      match c with
      | .request id => .cont .failFor ({ s with queue := q }.emit (.done id "noconn"))
      | .enable => .cont .failFor { s with queue := q }
      | .decode l => .cont .failFor { s with queue := q, decode := l }
      | .disable => .cont .afterDisable { s with queue := q, enabled := false }
      | .shutdown => .halt { s with queue := q } (.gate .shutdown .finished)
    | [] =>
      if !s.handles then .halt s (.gate .shutdown .finished)
      else
        -- the delay elapses: back to the top of `run_inner` (still enabled)
        .cont .waitEnabled s

def Res.fin (k : Phase → S → S × Pos) : Res → S × Pos
  | .cont ph s => k ph s
  | .halt s p => (s, p)

/-- run the task from `phase` until it blocks (gate or idle). `fuel` bounds the number of
    commands processed; every iteration consumes a queued command or blocks. -/
def advance : Nat → Phase → S → S × Pos
  | 0, ph, s => (s, .idle ph)
  | fuel + 1, ph, s => (step ph s).fin (advance fuel)

def applyAction (s : S) (a : Action) : S :=
  if !s.handles then s        -- no handle left to act through
  else
    let s := s.emit (.act a)
    match a with
    | .enable => { s with queue := s.queue ++ [.enable] }
    | .disable => { s with queue := s.queue ++ [.disable] }
    | .shutdown => { s with queue := s.queue ++ [.shutdown] }
    | .request id => { s with queue := s.queue ++ [.request id] }
    | .setDecode l => { s with queue := s.queue ++ [.decode l] }
    | .dropAll => { s with handles := false }

/-- an action through a handle after the task has ended: the receiver of the command queue is
    gone, so a request completes with `Shutdown` at once and every other call returns `Shutdown` -/
def applyDone (s : S) (a : Action) : S :=
  if !s.handles then s
  else
    match a with
    | .request id => (s.emit (.act (.request id))).emit (.done id "shutdown")
    | .dropAll => { s.emit (.act .dropAll) with handles := false }
    | a => s.emit (.refused a)

def fuelFor (s : S) : Nat := 2 * s.queue.length + 8

/-- the environment reads off the peer's observation at a callback -/
def S.report (s : S) : S :=
  if s.unreported then { s with unreported := false }.emit .closed else s

/-- one stop: the environment acts while the task is blocked, then the task runs on -/
def stop (s : S) (pos : Pos) (acts : List Action) : S × Pos :=
  match pos with
  | .done => (acts.foldl applyDone s, .done)
  | .gate st next =>
    -- the environment observes the state (the callback), acts, then releases the task
    let s := s.report.emit (.gate st)
    let s := acts.foldl applyAction s
    advance (fuelFor s) next s
  | .idle resume =>
    let s := s.emit .idle
    let s := acts.foldl applyAction s
    advance (fuelFor s) resume s

/-- run a script of stops (stops after the end of the task included) -/
def runStops : S → Pos → List (List Action) → S × Pos
  | s, pos, [] => (s, pos)
  | s, pos, acts :: rest => runStops (stop s pos acts).1 (stop s pos acts).2 rest

/-- the task from its start (`run`: announce `Disabled`, then `run_inner`) -/
def start (s : S) : S × Pos := (s, .gate .disabled .waitEnabled)

end Rodbus.Life
