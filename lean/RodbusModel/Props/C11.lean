import RodbusModel.Props.C10
import RodbusModel.Lemmas.ClientStale
import RodbusModel.Lemmas.ClientStaleRtu
/-
  C11  The client keeps at most one request outstanding, transmits requests in submission order and
  stamps each TCP request with a 16-bit transaction id that advances by one for every request taken
  from its queue (wrapping after 65535).  A reply whose transaction id differs from the outstanding
  request's is discarded, and frames arriving while no request is outstanding are dropped.
  A frame that was completely received before a request is transmitted never becomes its result
  (`FramedReader::discard_buffered_frames`, called between formatting and writing the request).

  Model and abstraction as in Props/C10.  All history lists have the newest entry first:
  `sent` (rid, tx id, frame) of every request written, `dequeued` (rid, tx id) of every request
  taken from the queue inside a session, `accepted` rids in submission order.
-/
namespace Rodbus.Client

/-- `one_outstanding`.  In every reachable state at most one request is in flight, and every
    request that was ever written to a transport other than that one has already completed. -/
theorem one_outstanding {σ : Type} (F : Framing σ) (cap maxTo : Nat) (d : Decode)
    (coins : List Bool) (steps : List Step) (s : State σ)
    (hs : s = runState F (State.init F cap maxTo d coins) steps) :
    (inflightIds s.pos).length ≤ 1
      ∧ ∀ x ∈ s.sent, x.1 ∈ doneIds s.log ∨ x.1 ∈ inflightIds s.pos := by
  subst hs
  refine ⟨?_, out_reach _ (runState_reach F cap maxTo d coins steps)⟩
  generalize (runState F (State.init F cap maxTo d coins) steps).pos = p
  cases p <;> simp [inflightIds]

/-- A request is written only when none is in flight: the write takes the loop from `idle` to
    `inflight` with the request that was at the head of the queue. -/
theorem write_only_when_idle {c c' : Core} (t : TEff c c') (h : c'.sent ≠ c.sent) :
    ∃ m r q, c.pos = .idle m ∧ c.queue = .req r :: q
      ∧ c'.pos = .inflight m r c.tx (c.now + r.timeout) := by
  cases t with
  | send m r q bytes logged ha hp hq => exact ⟨m, r, q, hp, hq, rfl⟩
  | dequeueFail m r q res ha hp hq hres =>
    exact absurd (afterCore_parts _ m res).2.2.2.2.2.2.1 h
  | finish m r tx dl res ha hp ht h3 h4 =>
    exact absurd (afterCore_parts _ m res).2.2.2.2.2.2.1 h
  | _ => exact absurd rfl h

/-- `fifo_order`.  What is written is a subsequence of what was taken from the queue (same request,
    same tx id, same order), and the requests still queued followed by the requests taken are a
    subsequence of the accepted requests in submission order: requests are transmitted in the
    order in which they were submitted. -/
theorem fifo_order {σ : Type} (F : Framing σ) (cap maxTo : Nat) (d : Decode)
    (coins : List Bool) (steps : List Step) (s : State σ)
    (hs : s = runState F (State.init F cap maxTo d coins) steps) :
    List.Sublist (s.sent.map fun x => (x.1, x.2.1)) s.dequeued
      ∧ List.Sublist ((queueIds s.queue).reverse ++ s.dequeued.map (·.1)) s.accepted := by
  subst hs; exact fifo_reach _ (runState_reach F cap maxTo d coins steps)

/-- `txid_formula`.  The `k`-th request taken from the queue in a session (counted from 0 over the
    whole life of the task, for unbounded `k`) carries the tx id `k mod 65536`; this also holds
    when the request then fails to be encoded or written, and the counter holds the next id. -/
theorem txid_formula {σ : Type} (F : Framing σ) (cap maxTo : Nat) (d : Decode)
    (coins : List Bool) (steps : List Step) (s : State σ)
    (hs : s = runState F (State.init F cap maxTo d coins) steps) :
    s.tx = s.dequeued.length % 65536
      ∧ ∀ k, k < s.dequeued.length → (s.dequeued.reverse.map (·.2))[k]? = some (k % 65536) := by
  subst hs
  obtain ⟨h1, h2⟩ := txSeq_reach _ (runState_reach F cap maxTo d coins steps)
  refine ⟨h1, ?_⟩
  intro k hk
  have h2' : (List.map (fun x => x.2) (runState F (State.init F cap maxTo d coins) steps).dequeued.reverse)
      = (List.range (runState F (State.init F cap maxTo d coins) steps).dequeued.length).map (· % 65536) := h2
  rw [h2']
  simp [hk]

/-- The tx id of a written request is the one drawn for it when it was taken from the queue
    (`sent ⊆ dequeued` above), and MBAP puts it big-endian into the first two bytes of the frame. -/
theorem mbap_stamps_txid (tx unit : Nat) (pdu : Bytes) :
    (mbap.format tx unit pdu).take 2 = u16be tx := rfl

/-- the frame of a written request is `format (drawn tx id) unit (request PDU)` -/
theorem sent_frame {σ : Type} (F : Framing σ) (s : State σ) (m : Nat) (r : Req) :
    (startRequest F s m r).sent = s.sent
      ∨ ∃ pdu, encodeRequest r.req = .ok pdu
          ∧ (startRequest F s m r).sent = (r.rid, s.tx, F.format s.tx r.unit pdu) :: s.sent := by
  unfold startRequest
  simp only []
  split
  · left; exact finish_sent _ _ _ _
  · rename_i pdu hp
    split
    · left; exact finish_sent _ _ _ _
    · split
      · left; exact finish_sent _ _ _ _
      · right
        refine ⟨pdu, hp, ?_⟩
        generalize isLatest _ m = b
        cases b <;> rfl
where
  finish_sent (s : State σ) (m : Nat) (r : Req) (res : Res) : (finish s m r res).sent = s.sent := by
    unfold finish afterRequest
    split
    · rfl
    · split
      · split
        · rfl
        · split <;> rfl
      · rfl

/-- `txid_next_wraps`: `TxId::next` advances by one and wraps from 65535 to 0, staying 16-bit. -/
theorem txid_next_wraps :
    nextTx 65535 = 0 ∧ ∀ t, t < 65535 → nextTx t = t + 1 ∧ nextTx t < 65536 := by
  refine ⟨rfl, ?_⟩
  intro t ht
  unfold nextTx
  have : ¬ t = 65535 := by omega
  simp [this]; omega

/-- `consecutive_differ`: two requests taken from the queue one after the other never carry the
    same tx id. -/
theorem consecutive_differ (t : Nat) : nextTx t ≠ t := by
  unfold nextTx; split <;> omega

/-- `mismatch_discarded`.  While a request with tx id `tx` is outstanding and its deadline has not
    been reached, a frame whose tx id differs is consumed without any effect on the request: nothing
    is logged, the request stays in flight with the same deadline, the queue is untouched. -/
theorem mismatch_discarded {σ : Type} (F : Framing σ) (s s' : State σ) (m : Nat) (q : Req)
    (tx dl t : Nat) (f : Frame) (hr : pollReader F s m = (.frame f, s')) (hnow : s.now < dl)
    (ht : f.tx = some t) (hne : t ≠ tx) :
    tickInflight F s m q tx dl = some s' ∧ core s' = core s := by
  have hm : txMatches f tx = false := (txMatches_false_iff f tx).mpr ⟨t, ht, hne⟩
  rw [tickInflight_before F s s' m q tx dl _ hr hnow]
  simp only [inflightReader_mismatch s' m q tx f hm]
  have := core_pollReader F s m
  rw [hr] at this
  exact ⟨trivial, this⟩

/-- the same at the deadline instant, whichever branch `select!` polls first: a mismatching frame
    never becomes the result; the request either times out or stays as it is -/
theorem mismatch_discarded_at_deadline {σ : Type} (F : Framing σ) (s s' t' : State σ) (m : Nat)
    (q : Req) (tx dl t : Nat) (f : Frame) (hr : pollReader F s m = (.frame f, s'))
    (hnow : dl ≤ s.now) (ht : f.tx = some t) (hne : t ≠ tx)
    (h : tickInflight F s m q tx dl = some t') :
    t' = finish (flip s).2 m q .timeout ∨ core t' = core s := by
  have hm : txMatches f tx = false := (txMatches_false_iff f tx).mpr ⟨t, ht, hne⟩
  rw [tickInflight_expired_ready F s s' m q tx dl _ hr (by simp) hnow] at h
  split at h
  · left; cases h; rfl
  · right
    cases h
    rw [inflightReader_mismatch _ m q tx f hm]
    have := core_pollReader F s m
    rw [hr] at this
    exact this

/-- `stale_frame_never_accepted`.  When a request has been written (for whatever resolution of the
    scheduler's polling order: `startRequest` does not consult it), the read buffer holds no
    complete frame any more: every frame that had been received completely before the request was
    transmitted — while no request was outstanding, or behind the reply of the previous request
    whatever tx id it carries — has been dropped by `discard_buffered_frames`.  Without new bytes
    from the transport the reader reports nothing, so the response loop cannot complete the request
    from what was received earlier.  (`DiscardComplete F`: the discard loop runs to the parser's
    `Ok(None)`; proved for MBAP in `mbap_discardComplete`.) -/
theorem stale_frame_never_accepted {σ : Type} (F : Framing σ) (hF : DiscardComplete F)
    (s : State σ) (m : Nat) (r : Req) (m' : Nat) (r' : Req) (tx dl : Nat)
    (h : (startRequest F s m r).pos = .inflight m' r' tx dl) :
    let t := startRequest F s m r
    (∀ fuel, readerPoll F fuel t.pst t.rb [] = (.blocked, t.pst, t.rb, []))
      ∧ ((getMock t m').rx = [] → t.now < dl → tickInflight F t m' r' tx dl = none) := by
  intro t
  have hpar := startRequest_reader F hF s m r m' r' tx dl h
  refine ⟨fun fuel => readerPoll_blocked F fuel _ _ hpar, ?_⟩
  intro hrx hnow
  have hpoll : (pollReader F t m').1 = .blocked := by
    unfold pollReader
    simp only [hrx]
    rw [readerPoll_blocked F _ _ _ hpar]
  generalize hpr : pollReader F t m' = pr at hpoll
  obtain ⟨rr, s'⟩ := pr
  simp only [] at hpoll
  subst hpoll
  rw [tickInflight_before F t s' m' r' tx dl .blocked hpr hnow]
  simp [hrx]

/-- the same for MBAP without hypothesis -/
theorem stale_frame_never_accepted_mbap (s : State Mbap.PState) (m : Nat) (r : Req) (m' : Nat)
    (r' : Req) (tx dl : Nat) (h : (startRequest mbap s m r).pos = .inflight m' r' tx dl) :
    let t := startRequest mbap s m r
    (∀ fuel, readerPoll mbap fuel t.pst t.rb [] = (.blocked, t.pst, t.rb, []))
      ∧ ((getMock t m').rx = [] → t.now < dl → tickInflight mbap t m' r' tx dl = none) :=
  stale_frame_never_accepted mbap mbap_discardComplete s m r m' r' tx dl h

/-- the same for RTU (response parser), from every parser state the reader can be in between
    calls (`Rtu.StOk`: the initial state, and preserved by the reader and by the discard loop:
    `rtu_readerPoll_stok`, `rtu_discard_stok`) -/
theorem stale_frame_never_accepted_rtu (s : State Rtu.PState) (hst : Rtu.StOk s.pst) (m : Nat)
    (r : Req) (m' : Nat) (r' : Req) (tx dl : Nat)
    (h : (startRequest rtu s m r).pos = .inflight m' r' tx dl) :
    let t := startRequest rtu s m r
    (∀ fuel, readerPoll rtu fuel t.pst t.rb [] = (.blocked, t.pst, t.rb, []))
      ∧ ((getMock t m').rx = [] → t.now < dl → tickInflight rtu t m' r' tx dl = none) := by
  intro t
  have hpar := startRequest_reader_at rtu s m (rtu_discardCompleteAt s.pst s.rb hst) r m' r' tx dl h
  refine ⟨fun fuel => readerPoll_blocked rtu fuel _ _ hpar, ?_⟩
  intro hrx hnow
  have hpoll : (pollReader rtu t m').1 = .blocked := by
    unfold pollReader
    simp only [hrx]
    rw [readerPoll_blocked rtu _ _ _ hpar]
  generalize hpr : pollReader rtu t m' = pr at hpoll
  obtain ⟨rr, s'⟩ := pr
  simp only [] at hpoll
  subst hpoll
  rw [tickInflight_before rtu t s' m' r' tx dl .blocked hpr hnow]
  simp [hrx]

/-- malformed bytes found in the buffer when a request is about to be written fail that request
    with the framing error (nothing is transmitted; by `error_meaning_transport` the session ends) -/
theorem stale_garbage_fails_request {σ : Type} (F : Framing σ) (s : State σ) (m : Nat) (r : Req)
    (pdu : Bytes) (res : Res) (st' : σ) (rb' : RB) (he : encodeRequest r.req = .ok pdu)
    (hd : discardBuffered F (discardFuel s.rb) s.pst s.rb = (some res, st', rb')) :
    (startRequest F s m r).sent = s.sent ∧ (∃ e, res = frameErrRes e)
      ∧ ∃ s1, startRequest F s m r = finish s1 m r res := by
  refine ⟨?_, discardBuffered_err F _ _ _ res _ hd, ?_⟩
  · unfold startRequest; simp only [he, hd]; exact sent_frame.finish_sent _ _ _ _
  · unfold startRequest; simp only [he, hd]; exact ⟨_, rfl⟩

/-- `idle_dropped`.  A frame handed to the loop while no request is outstanding is dropped: nothing
    is logged, nothing changes except that the bytes are consumed. -/
theorem idle_dropped {σ : Type} (F : Framing σ) (s s' : State σ) (m : Nat) (f : Frame)
    (hr : pollReader F s m = (.frame f, s')) (hq : recvReady s = false) :
    tickIdle F s m = some s' ∧ core s' = core s := by
  have hc := core_pollReader F s m
  rw [hr] at hc
  refine ⟨?_, hc⟩
  unfold tickIdle
  simp only [hr, hq]
  rfl

/-- whatever the reader hands to the idle loop, a frame changes nothing -/
theorem idle_frame_no_effect {σ : Type} (s : State σ) (f : Frame) : idleReader s (.frame f) = s :=
  rfl

/-! ### non-vacuity, and the race between `recv` and the reader -/

namespace Example

/-- two requests, replies in order, tx ids 0 and 1 on the wire -/
example :
    (runState mbap s16
      [.newSession, .submit .R 0 (rc "a" .future 1000), .submit .R 0 (rc "b" .future 1000),
       .rx (.data [0, 0, 0, 0, 0, 4, 1, 1, 1, 0x55]),
       .rx (.data [0, 1, 0, 0, 0, 4, 1, 1, 1, 0xFF])]).sent.map (fun x => (x.1, x.2.1))
      = [("b", 1), ("a", 0)] := by decide

/-- a reply with a stale tx id is skipped, the request then times out at its deadline -/
example :
    (runState mbap s16
      [.newSession, .submit .R 0 (rc "a" .future 10), .rx (.data [0, 9, 0, 0, 0, 4, 1, 1, 1, 0x55]),
       .advance 10]).log
      = [.done "a" .future .timeout 10, .tx [0, 0, 0, 0, 0, 6, 1, 1, 0, 0, 0, 8]] := by decide

/-- a frame that arrives while idle is dropped; the next request is not affected by it -/
example :
    (runState mbap s16
      [.newSession, .rx (.data [0, 0, 0, 0, 0, 4, 1, 1, 1, 0x55]),
       .submit .R 0 (rc "a" .future 10), .advance 10]).log
      = [.done "a" .future .timeout 10, .tx [0, 0, 0, 0, 0, 6, 1, 1, 0, 0, 0, 8]] := by decide

/-- FORMER RACE (finding, fixed by `discard_buffered_frames`).  Bytes delivered together with the
    matching reply of request `a` stay in the read buffer; with `b` already queued,
    `ClientLoop::poll` selects between the reader and the queue in random order.  Before the fix
    the second frame (tx id 1, received while `a` with tx id 0 was outstanding) became the result
    of `b` when the queue was polled first.  Now both orders give the same result: the frame is
    dropped (as "received while idle" or by the discard before `b` is written) and `b` stays in
    flight. -/
example :
    let script := [Step.newSession, .submit .R 0 (rc "a" .future 1000),
      .submit .R 0 (rc "b" .future 1000),
      .rx (.data [0, 0, 0, 0, 0, 4, 1, 1, 1, 0x55, 0, 1, 0, 0, 0, 4, 1, 1, 1, 0xFF])]
    (doneIds (runState mbap (State.init mbap 16 0 ⟨0, 0, 0⟩ [true]) script).log = ["a"])
      ∧ (doneIds (runState mbap (State.init mbap 16 0 ⟨0, 0, 0⟩ [false]) script).log = ["a"])
      ∧ inflightIds (runState mbap (State.init mbap 16 0 ⟨0, 0, 0⟩ [false]) script).pos = ["b"] := by
  decide

/-- garbage buffered behind the reply of `a`: the next request fails with the framing error when
    the queue is polled first, the session ends with the framing error either way -/
example :
    let script := [Step.newSession, .submit .R 0 (rc "a" .future 1000),
      .submit .R 0 (rc "b" .future 1000),
      .rx (.data [0, 0, 0, 0, 0, 4, 1, 1, 1, 0x55, 0, 1, 0, 1, 0, 4, 1])]
    ((runState mbap (State.init mbap 16 0 ⟨0, 0, 0⟩ [true]) script).log.take 1
        = [.fin .badFrame 0])
      ∧ ((runState mbap (State.init mbap 16 0 ⟨0, 0, 0⟩ [false]) script).log.take 2
        = [.fin .badFrame 0, .done "b" .future (.bf .proto) 0]) := by
  decide

end Example

end Rodbus.Client
