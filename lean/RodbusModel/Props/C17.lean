import RodbusModel.Props.C02
/-
  C17  Multi-drop discipline (RTU server): a station answers only frames addressed to one of its
  configured unit ids; destination 0 is a broadcast — writes are applied to every configured unit
  and never answered, reads are ignored; on TCP unit id 0 is an ordinary unit id.

  `isBroadcast cfg f = (cfg.rtu && f.dest == 0)`: only the RTU frame parser produces
  `FrameDestination::Broadcast`.  Vocabulary as in C01 / C02.
-/
namespace Rodbus.C17
open Rodbus Rodbus.Spec.Server

/-- what "broadcast" means -/
theorem broadcast_iff {σ : Type} (cfg : ServerCfg σ) (f : Frame) :
    isBroadcast cfg f = true ↔ cfg.rtu = true ∧ f.dest = 0 := by
  simp [isBroadcast]

/-- A frame whose destination is neither a configured unit id nor the broadcast address is met with
    complete silence — no reply, no call, no state change — whatever its PDU: valid, malformed,
    unknown function or empty.  (No authorization handler: serial sessions have none.) -/
theorem silent_unless_addressed {σ : Type} (cfg : ServerCfg σ) (hs : List (Nat × σ)) (f : Frame)
    (hb : isBroadcast cfg f = false) (hl : lookupUnit hs f.dest = none) (ha : cfg.auth = none) :
    handleFrame cfg hs f = ⟨none, [], hs⟩ :=
  C01.unconfigured_silent_no_auth cfg hs f hb hl ha

/-- the RTU instance: any non-zero address that is not configured -/
theorem silent_unless_addressed_rtu {σ : Type} (cfg : ServerCfg σ) (hs : List (Nat × σ)) (f : Frame)
    (hd : f.dest ≠ 0) (hl : f.dest ∉ hs.map Prod.fst) (ha : cfg.auth = none) :
    handleFrame cfg hs f = ⟨none, [], hs⟩ := by
  apply silent_unless_addressed cfg hs f _ _ ha
  · simp [isBroadcast, hd]
  · cases h : lookupUnit hs f.dest with
    | none => rfl
    | some s => exact absurd ((lookupUnit_isSome_iff hs f.dest).1 (by simp [h])) hl

/-- a whole session of frames for other stations leaves no trace -/
theorem silent_session {σ : Type} (cfg : ServerCfg σ) (hs : List (Nat × σ)) (fs : List Frame)
    (ha : cfg.auth = none)
    (h : ∀ f ∈ fs, f.dest ≠ 0 ∧ f.dest ∉ hs.map Prod.fst) :
    runFrames cfg hs fs = ([], [], hs) := by
  induction fs with
  | nil => rfl
  | cons f fs ih =>
    have hf := h f (List.mem_cons_self ..)
    simp only [runFrames, silent_unless_addressed_rtu cfg hs f hf.1 hf.2 ha,
      ih (fun g hg => h g (List.mem_cons_of_mem _ hg))]
    rfl

/-- a broadcast is never answered, whatever it contains and whatever the handlers return -/
theorem broadcast_never_answered {σ : Type} (cfg : ServerCfg σ) (hs : List (Nat × σ)) (f : Frame)
    (hb : isBroadcast cfg f = true) : (handleFrame cfg hs f).reply = none := by
  cases hreq : requestOf f with
  | none => exact (handleFrame_no_request cfg hs f hreq).2.2 (Or.inl hb)
  | some req =>
    rw [handleFrame_request cfg hs f hreq]
    simp only [hb, if_true]
    split
    · rfl
    · split <;> rfl

/-- A valid (and permitted) broadcast write is applied to every configured unit, one call each, in
    the order of the unit map; no reply; each unit's new state is whatever its handler returned —
    also when the handler raised an exception. -/
theorem broadcast_write {σ : Type} (cfg : ServerCfg σ) (hs : List (Nat × σ)) (f : Frame)
    (req : Request) (hrtu : cfg.rtu = true) (hd : f.dest = 0) (hreq : requestOf f = some req)
    (hw : isWrite req = true) (ha : cfg.allows f.dest req = true) :
    handleFrame cfg hs f =
      ⟨none, cfg.question f.dest req ++ (hs.map Prod.fst).flatMap (writeCalls req),
        hs.map fun p => (p.1, (cfg.H.applyWrite p.2 req).2)⟩ := by
  have hb : isBroadcast cfg f = true := (broadcast_iff cfg f).2 ⟨hrtu, hd⟩
  rw [handleFrame_request cfg hs f hreq]
  simp only [ha, hb, hw, Bool.true_eq_false, if_false, if_true, applyToAll_write cfg.H req hw,
    List.flatMap_map]

/-- a malformed or unknown-function (or empty) broadcast is ignored altogether -/
theorem broadcast_malformed_ignored {σ : Type} (cfg : ServerCfg σ) (hs : List (Nat × σ))
    (f : Frame) (hb : isBroadcast cfg f = true) (hreq : requestOf f = none) :
    handleFrame cfg hs f = ⟨none, [], hs⟩ := by
  obtain ⟨h1, h2, h3⟩ := handleFrame_no_request cfg hs f hreq
  have h3 := h3 (Or.inl hb)
  cases h : handleFrame cfg hs f; simp_all

/-- a broadcast read is ignored: no reply, no handler call, no state change -/
theorem broadcast_read_ignored {σ : Type} (cfg : ServerCfg σ) (hs : List (Nat × σ)) (f : Frame)
    (req : Request) (hb : isBroadcast cfg f = true) (hreq : requestOf f = some req)
    (hr : isWrite req = false) :
    handleFrame cfg hs f = ⟨none, cfg.question f.dest req, hs⟩ := by
  rw [handleFrame_request cfg hs f hreq]
  cases ha : cfg.allows f.dest req <;> simp [hb, hr]

/-- on TCP (MBAP) there is no broadcast: unit id 0 is looked up in the unit map like any other -/
theorem unit0_ordinary_on_tcp {σ : Type} (cfg : ServerCfg σ) (f : Frame) (h : cfg.rtu = false) :
    isBroadcast cfg f = false := by
  simp [isBroadcast, h]

/-- …so a valid request to a configured unit 0 is served and answered … -/
theorem unit0_served_on_tcp {σ : Type} (cfg : ServerCfg σ) (hs : List (Nat × σ)) (f : Frame)
    (req : Request) (s : σ) (h : cfg.rtu = false) (hd : f.dest = 0)
    (hreq : requestOf f = some req) (hl : lookupUnit hs 0 = some s)
    (ha : cfg.allows 0 req = true) :
    handleFrame cfg hs f =
      ⟨some (serve cfg.H 0 s req).1, cfg.question 0 req ++ (serve cfg.H 0 s req).2.1,
        setUnit hs 0 (serve cfg.H 0 s req).2.2⟩ := by
  have := C01.served cfg hs f req s hreq (unit0_ordinary_on_tcp cfg f h) (by rw [hd]; exact hl)
    (by rw [hd]; exact ha)
  rw [hd] at this; exact this

/-- …and a frame to an unconfigured unit 0 is ignored, not broadcast -/
theorem unit0_unconfigured_on_tcp {σ : Type} (cfg : ServerCfg σ) (hs : List (Nat × σ)) (f : Frame)
    (h : cfg.rtu = false) (hd : f.dest = 0) (hl : lookupUnit hs 0 = none) (ha : cfg.auth = none) :
    handleFrame cfg hs f = ⟨none, [], hs⟩ :=
  silent_unless_addressed cfg hs f (unit0_ordinary_on_tcp cfg f h) (by rw [hd]; exact hl) ha

/-! ## Sessions with an authorization handler (TLS with role certificates)

The statement of C17 is not limited to sessions without authorization.  With a handler configured
the discipline is: an *allowed* (or malformed) frame for an unconfigured unit is met with silence
exactly as above, and a *denied* one is answered with exception 01 — the authorization question
precedes unit dispatch, which is what C08 prescribes for all unit ids.  Both halves are stated;
the second is the one point where C08 takes precedence over the wording of C17 (DESIGN.md §3). -/

/-- whatever the authorization configuration: no reply, no handler call and no state change for a
    frame to an unconfigured unit, unless the authorization handler denies the request it denotes -/
theorem silent_unless_addressed_or_denied {σ : Type} (cfg : ServerCfg σ) (hs : List (Nat × σ))
    (f : Frame) (hb : isBroadcast cfg f = false) (hl : lookupUnit hs f.dest = none)
    (hok : ∀ req, requestOf f = some req → cfg.allows f.dest req = true) :
    (handleFrame cfg hs f).reply = none ∧ (∀ c ∈ (handleFrame cfg hs f).calls, c.isAuth = true)
      ∧ (handleFrame cfg hs f).states = hs :=
  C01.unconfigured_silent cfg hs f hb hl hok

/-- the excluded point, stated outright: a denied request is answered with exception 01 even when
    its unit id is not configured (no handler runs, no state changes) -/
theorem denied_answered_even_if_unconfigured {σ : Type} (cfg : ServerCfg σ) (hs : List (Nat × σ))
    (f : Frame) (req : Request) (hreq : requestOf f = some req)
    (hb : isBroadcast cfg f = false) (hd : cfg.allows f.dest req = false) :
    handleFrame cfg hs f = ⟨some [req.fc.toByte + 128, 1], cfg.question f.dest req, hs⟩ := by
  rw [handleFrame_request cfg hs f hreq, orErr_toByte]; simp [hd, hb]

/-! ## Non-vacuity -/

open Demo

/-- RTU, address 9 (not configured): silence for a valid read and for garbage alike -/
example : handleFrame rtu units ⟨none, 9, readCoils8⟩ = ⟨none, [], units⟩
    ∧ handleFrame rtu units ⟨none, 9, [0x2B, 1]⟩ = ⟨none, [], units⟩ :=
  ⟨silent_unless_addressed_rtu rtu units _ (by decide) (by decide) rfl,
   silent_unless_addressed_rtu rtu units _ (by decide) (by decide) rfl⟩

/-- RTU broadcast write of two registers: both units are written (unit 2 has only two registers,
    unit 1 three), nobody answers -/
example : (handleFrame rtu units ⟨none, 0, writeRegs⟩).reply = none
    ∧ (handleFrame rtu units ⟨none, 0, writeRegs⟩).calls
        = [.writeMultipleRegisters 1 ⟨0, 2⟩ [(0, 0x0102), (1, 0x0304)],
           .writeMultipleRegisters 2 ⟨0, 2⟩ [(0, 0x0102), (1, 0x0304)]]
    ∧ (handleFrame rtu units ⟨none, 0, writeRegs⟩).states
        = [(1, ⟨db1.coils, [0x0102, 0x0304, 7]⟩), (2, ⟨db2.coils, [0x0102, 0x0304]⟩)] := by
  rw [C01.handleFrame_eq_spec]; decide

/-- RTU broadcast read: ignored -/
example : (handleFrame rtu units ⟨none, 0, readCoils8⟩).reply = none
    ∧ (handleFrame rtu units ⟨none, 0, readCoils8⟩).calls = [] := by
  rw [C01.handleFrame_eq_spec]; decide

/-- the same bytes on TCP with unit id 0: not a broadcast, unit 0 is not configured, ignored;
    with unit 0 configured it is served -/
example : (handleFrame tcp units ⟨some 1, 0, writeRegs⟩).calls = []
    ∧ (handleFrame tcp ((0, db2) :: units) ⟨some 1, 0, writeRegs⟩).reply = some [16, 0, 0, 0, 2]
    ∧ (handleFrame tcp ((0, db2) :: units) ⟨some 1, 0, writeRegs⟩).calls
        = [.writeMultipleRegisters 0 ⟨0, 2⟩ [(0, 0x0102), (1, 0x0304)]] := by
  rw [C01.handleFrame_eq_spec, C01.handleFrame_eq_spec]; decide

end Rodbus.C17
