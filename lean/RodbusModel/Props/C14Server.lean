import RodbusModel.Model.SerialServer
import RodbusModel.Spec.SerialServer
import RodbusModel.Props.C14
/-
  C14 for the RTU server task (`RtuServerTask::run`, serial/server.rs): for EVERY script of
  environment events the observed sequence (announced failed opens with their delays, successful
  opens, session ends with their delays, replies, end of the task) is the one of the counter
  specification (`run_eq_spec`); hence the delay before the re-attempt that follows the k-th
  consecutive failed open since the last successful open (or since the start) is
  `min(min · 2^(k-1), max)` (`observed_delays_conform`, `failures_from_start`), after a session
  that ended - bad frame or lost port - the first delay is the minimum and the doubling sequence
  restarts, whatever happened before the successful open (`restart_after_bad_frame`,
  `restart_after_port_loss`); a request is answered exactly while the port is open
  (`reply_iff_open`); a shutdown command or dropping every handle ends the task from every state
  (`shutdown_from_every_state`), the end is observed exactly once, last (`ended_final`).
-/
namespace Rodbus.C14Server
open Rodbus.Retry Rodbus.SerialServer
open Rodbus.Spec.SerialServer (T Mode delay conforms)

/-! ### the model refines the counter specification -/

def phaseOf : Mode → Phase
  | .starting => .starting | .waiting => .waiting | .open_ => .session | .done => .finished

/-- the simulation relation: the strategy object holds `min(min · 2^k, max)`, `k` the number of
    failed opens since the last successful one -/
structure Sim (mn mx : Nat) (s : S) (t : T) : Prop where
  phase : s.phase = phaseOf t.mode
  present : s.present = t.present
  rmin : s.retry.min = mn
  rmax : s.retry.max = mx
  cur : s.retry.current = Nat.min (mn * 2 ^ t.k) mx
  k_open : t.mode = .open_ → t.k = 0

theorem init_sim (mn mx : Nat) : Sim mn mx (init mn mx) {} := by
  constructor <;> simp [init, create, phaseOf]

/-- an open attempt -/
theorem attempt_sim {mn mx : Nat} (hmax : mx ≤ DURATION_MAX) (s : S) (t : T)
    (hp : s.present = t.present) (h1 : s.retry.min = mn) (h2 : s.retry.max = mx)
    (h3 : s.retry.current = Nat.min (mn * 2 ^ t.k) mx) :
    Sim mn mx (attempt s).1 (Spec.SerialServer.attempt mn mx t).1 ∧
      (attempt s).2 = (Spec.SerialServer.attempt mn mx t).2 := by
  unfold attempt Spec.SerialServer.attempt
  rw [hp]
  cases hpr : t.present
  · -- the open fails
    obtain ⟨c1, c2, c3⟩ := C14.current_after mn mx hmax t.k s.retry h1 h2 h3
    refine ⟨⟨rfl, ?_, c2, c3, c1, ?_⟩, ?_⟩
    · simp
    · intro h; simp at h
    · simp [afterFailedConnect, h3, delay]
  · -- the open succeeds
    refine ⟨⟨rfl, ?_, ?_, ?_, ?_, ?_⟩, rfl⟩
    · simp
    · simpa [reset] using h1
    · simpa [reset] using h2
    · simp [reset, h1, h2]
    · intro _; rfl

/-- one event: related states stay related and the same is observed -/
theorem step_sim {mn mx : Nat} (hmax : mx ≤ DURATION_MAX) (s : S) (t : T) (e : Ev)
    (h : Sim mn mx s t) :
    Sim mn mx (step s e).1 (Spec.SerialServer.step mn mx t e).1 ∧
      (step s e).2 = (Spec.SerialServer.step mn mx t e).2 := by
  obtain ⟨hph, hpr, h1, h2, h3, ko⟩ := h
  rcases s with ⟨r, pr, ph⟩
  rcases t with ⟨m, tp, k⟩
  simp only at hph hpr h1 h2 h3 ko
  subst hpr
  cases m <;> simp only [phaseOf] at hph <;> subst hph
  · -- starting
    cases e
    case absent =>
      have := attempt_sim hmax ⟨r, false, .starting⟩ ⟨.starting, false, k⟩ rfl h1 h2 h3
      simpa [step, Spec.SerialServer.step] using this
    case present =>
      have := attempt_sim hmax ⟨r, true, .starting⟩ ⟨.starting, true, k⟩ rfl h1 h2 h3
      simpa [step, Spec.SerialServer.step] using this
    case shutdown =>
      obtain ⟨a, b⟩ := attempt_sim hmax ⟨r, pr, .starting⟩ ⟨.starting, pr, k⟩ rfl h1 h2 h3
      refine ⟨⟨rfl, a.present, a.rmin, a.rmax, a.cur, ?_⟩, ?_⟩
      · intro h; simp [Spec.SerialServer.step] at h
      · simp [step, Spec.SerialServer.step, b]
    case dropAll =>
      obtain ⟨a, b⟩ := attempt_sim hmax ⟨r, pr, .starting⟩ ⟨.starting, pr, k⟩ rfl h1 h2 h3
      refine ⟨⟨rfl, a.present, a.rmin, a.rmax, a.cur, ?_⟩, ?_⟩
      · intro h; simp [Spec.SerialServer.step] at h
      · simp [step, Spec.SerialServer.step, b]
    all_goals
      refine ⟨⟨?_, ?_, ?_, ?_, ?_, ?_⟩, ?_⟩ <;>
        simp_all [step, Spec.SerialServer.step, phaseOf]
  · -- waiting
    cases e
    case absent =>
      have := attempt_sim hmax ⟨r, false, .waiting⟩ ⟨.waiting, false, k⟩ rfl h1 h2 h3
      simpa [step, Spec.SerialServer.step] using this
    case present =>
      have := attempt_sim hmax ⟨r, true, .waiting⟩ ⟨.waiting, true, k⟩ rfl h1 h2 h3
      simpa [step, Spec.SerialServer.step] using this
    all_goals
      refine ⟨⟨?_, ?_, ?_, ?_, ?_, ?_⟩, ?_⟩ <;>
        simp_all [step, Spec.SerialServer.step, finish, phaseOf]
  · -- open / session
    have hk : k = 0 := ko rfl
    subst hk
    cases e
    all_goals
      refine ⟨⟨?_, ?_, ?_, ?_, ?_, ?_⟩, ?_⟩ <;>
        simp_all [step, Spec.SerialServer.step, finish, sessionError, phaseOf, afterDisconnect]
  · -- done / finished
    refine ⟨⟨?_, ?_, ?_, ?_, ?_, ?_⟩, ?_⟩ <;>
      simp_all [step, Spec.SerialServer.step, phaseOf]

/-- a whole script -/
theorem script_sim {mn mx : Nat} (hmax : mx ≤ DURATION_MAX) (es : List Ev) :
    ∀ (s : S) (t : T), Sim mn mx s t →
      Sim mn mx (after s es) (Spec.SerialServer.after mn mx t es) ∧
        outputs s es = Spec.SerialServer.outputs mn mx t es := by
  induction es with
  | nil => intro s t h; exact ⟨h, rfl⟩
  | cons e es ih =>
    intro s t h
    obtain ⟨h', ho⟩ := step_sim hmax s t e h
    obtain ⟨h'', ho'⟩ := ih _ _ h'
    refine ⟨by simpa [after, Spec.SerialServer.after] using h'', ?_⟩
    simp only [outputs, Spec.SerialServer.outputs, ho, ho']

/-- **run_eq_spec**: for every `(min, max)` with `max` representable and EVERY script the task
    is observed to do exactly what the counter specification says: the delay announced (and
    slept) after the k-th consecutive failed open since the last successful open (or since the
    start) is `min(min · 2^(k-1), max)`, the delay after an ended session is `min`. -/
theorem run_eq_spec (mn mx : Nat) (hmax : mx ≤ DURATION_MAX) (script : List Ev) :
    SerialServer.run mn mx script = Spec.SerialServer.run mn mx script := by
  unfold SerialServer.run Spec.SerialServer.run
  exact (script_sim hmax (script ++ [.shutdown]) _ _ (init_sim mn mx)).2

/-- every reachable state is related to the specification state of the same script -/
theorem reachable_sim (mn mx : Nat) (hmax : mx ≤ DURATION_MAX) (pre : List Ev) :
    Sim mn mx (after (init mn mx) pre) (Spec.SerialServer.after mn mx {} pre) :=
  (script_sim hmax pre _ _ (init_sim mn mx)).1

/-! ### the observed sequence alone -/

theorem spec_done_outputs (mn mx : Nat) (es : List Ev) :
    ∀ t : T, t.mode = .done → Spec.SerialServer.outputs mn mx t es = [] := by
  induction es with
  | nil => intros; rfl
  | cons e es ih =>
    intro t h
    have h1 : Spec.SerialServer.step mn mx t e = (t, []) := by simp [Spec.SerialServer.step, h]
    simp [Spec.SerialServer.outputs, h1, ih t h]

theorem spec_conforms (mn mx : Nat) (es : List Ev) :
    ∀ (t : T) (b : Bool), b = (t.mode == .open_) → (t.mode = .open_ → t.k = 0) →
      conforms mn mx b t.k (Spec.SerialServer.outputs mn mx t es) = true := by
  induction es with
  | nil => intro t _ _ _; rfl
  | cons e es ih =>
    intro t b hb hk
    rcases t with ⟨m, p, k⟩
    cases m
    case open_ =>
      have : k = 0 := hk rfl
      have hb' : b = true := hb
      subst this hb'
      cases e <;>
        simp [Spec.SerialServer.outputs, Spec.SerialServer.step, conforms] <;>
        first
          | (refine ih ⟨_, _, _⟩ _ ?_ ?_ <;> first | rfl | simp)
          | (refine spec_done_outputs mn mx es ⟨_, _, _⟩ ?_ <;> rfl)
    all_goals
      have hb' : b = false := hb
      subst hb'
      cases e <;> cases p <;>
        simp [Spec.SerialServer.outputs, Spec.SerialServer.step, Spec.SerialServer.attempt, conforms] <;>
        first
          | (refine ih ⟨_, _, _⟩ _ ?_ ?_ <;> first | rfl | simp)
          | (refine spec_done_outputs mn mx es ⟨_, _, _⟩ ?_ <;> rfl)

/-- **observed_delays_conform**: in the sequence observed for ANY script, every failed open
    carries `min(min · 2^k, max)` where `k` is the number of failed opens since the last
    successful open (or since the start); a session end carries `min` and happens only while the
    port is open, as do replies; no open attempt is made while the port is open; nothing follows
    the end of the task. -/
theorem observed_delays_conform (mn mx : Nat) (hmax : mx ≤ DURATION_MAX) (script : List Ev) :
    conforms mn mx false 0 (SerialServer.run mn mx script) = true := by
  rw [run_eq_spec mn mx hmax]
  exact spec_conforms mn mx (script ++ [.shutdown]) {} false rfl (by simp)

/-! ### the doubling sequence: from the start, and restarted after every successful open -/

theorem outputs_append (s : S) (es fs : List Ev) :
    outputs s (es ++ fs) = outputs s es ++ outputs (after s es) fs := by
  induction es generalizing s with
  | nil => rfl
  | cons e es ih => simp [outputs, after, ih, List.append_assoc]

/-- while the path stays absent, a task that is about to make an attempt (first poll, or
    sleeping) announces the strategy's consecutive-failure delays (`Retry.failures`, the object of
    `C14.kth_delay`) -/
theorem absent_failures (k : Nat) :
    ∀ s : S, s.phase = .waiting ∨ s.phase = .starting →
      outputs s (List.replicate k .absent) = (failures s.retry k).map Obs.failed := by
  induction k with
  | zero => intros; rfl
  | succ k ih =>
    intro s hp
    have hs : step s .absent =
        ({ s with present := false, retry := (afterFailedConnect s.retry).2, phase := .waiting },
          [.failed (afterFailedConnect s.retry).1]) := by
      rcases hp with hp | hp <;> simp [step, hp, attempt]
    simp only [List.replicate_succ, outputs, hs, failures, List.map_cons, List.singleton_append]
    exact congrArg _ (ih _ (Or.inl rfl))

/-- the announcements of `k` consecutive failed opens counted from a restart -/
def restartFails (mn mx k : Nat) : List Obs :=
  (List.range k).map fun i => Obs.failed (Nat.min (mn * 2 ^ i) mx)

/-- **failures_from_start**: a task whose port cannot be opened announces
    `min(min · 2^i, max)`, i = 0, 1, …, k-1, for every `k` -/
theorem failures_from_start (mn mx : Nat) (hmax : mx ≤ DURATION_MAX) (k : Nat) :
    outputs (init mn mx) (List.replicate k .absent) = restartFails mn mx k := by
  rw [absent_failures k (init mn mx) (Or.inr rfl)]
  simp only [init]
  rw [C14.kth_delay_created mn mx hmax k]
  simp [restartFails, List.map_map, Function.comp_def]

/-- whatever script led to an open port, a session-ending event `e` (with `step` as stated)
    announces `min` and the following failed opens restart the doubling sequence -/
theorem restart_after_session_end (mn mx : Nat) (hmax : mx ≤ DURATION_MAX) (pre : List Ev)
    (hopen : (after (init mn mx) pre).phase = .session) (e : Ev)
    (he : e = .lost ∨ e = .badFrame) (k : Nat) :
    outputs (after (init mn mx) pre) (e :: List.replicate k .absent) =
      .reopen mn :: restartFails mn mx k := by
  have h := reachable_sim mn mx hmax pre
  generalize after (init mn mx) pre = s at h hopen
  generalize Spec.SerialServer.after mn mx {} pre = t at h
  have hm : t.mode = .open_ := by
    have := h.phase; rw [hopen] at this
    cases hm : t.mode <;> simp [hm, phaseOf] at this; rfl
  have hs : (step s e).2 = [.reopen mn] ∧ (step s e).1.phase = .waiting ∧
      (step s e).1.retry = s.retry := by
    rcases he with he | he <;> subst he <;>
      simp [step, hopen, sessionError, afterDisconnect, h.rmin]
  simp only [outputs, hs.1, List.singleton_append]
  rw [absent_failures k _ (Or.inl hs.2.1), hs.2.2]
  have hc : s.retry.current = Nat.min (mn * 2 ^ 0) mx := by
    have := h.cur; rwa [h.k_open hm] at this
  rw [C14.kth_delay mn mx hmax k s.retry h.rmin h.rmax 0 hc]
  simp [restartFails, List.map_map, Function.comp_def]

/-- **restart_after_port_loss**: whatever script led to an open port (any number of failed opens
    before it), if the port is then lost the task announces a wait of `min` and the following
    failed opens restart the doubling sequence: `min(min · 2^i, max)`, i = 0, 1, … -/
theorem restart_after_port_loss (mn mx : Nat) (hmax : mx ≤ DURATION_MAX) (pre : List Ev)
    (hopen : (after (init mn mx) pre).phase = .session) (k : Nat) :
    outputs (after (init mn mx) pre) (.lost :: List.replicate k .absent) =
      .reopen mn :: restartFails mn mx k :=
  restart_after_session_end mn mx hmax pre hopen .lost (Or.inl rfl) k

/-- **restart_after_bad_frame**: the same when a frame ends the session (bad CRC). -/
theorem restart_after_bad_frame (mn mx : Nat) (hmax : mx ≤ DURATION_MAX) (pre : List Ev)
    (hopen : (after (init mn mx) pre).phase = .session) (k : Nat) :
    outputs (after (init mn mx) pre) (.badFrame :: List.replicate k .absent) =
      .reopen mn :: restartFails mn mx k :=
  restart_after_session_end mn mx hmax pre hopen .badFrame (Or.inr rfl) k

/-! ### requests are answered exactly while the port is open -/

/-- **reply_iff_open**: a served request is answered iff the port is open, and it never changes
    where the task is (nor its strategy object) -/
theorem reply_iff_open (s : S) :
    ((step s .frame).2 = [.reply] ↔ s.phase = .session) ∧
    ((step s .frame).2 = [] ↔ s.phase ≠ .session) ∧ (step s .frame).1 = s := by
  rcases s with ⟨r, pr, ph⟩
  cases ph <;> simp [step]

/-! ### shutdown / dropping every handle ends the task from every state -/

theorem finished_outputs (es : List Ev) : ∀ s : S, s.phase = .finished → outputs s es = [] := by
  induction es with
  | nil => intros; rfl
  | cons e es ih =>
    intro s h
    have h1 : step s e = (s, []) := by simp [step, h]
    simp [outputs, h1, ih s h]

theorem finished_after (es : List Ev) : ∀ s : S, s.phase = .finished →
    (after s es).phase = .finished := by
  induction es with
  | nil => intro s h; exact h
  | cons e es ih =>
    intro s h
    have h1 : step s e = (s, []) := by simp [step, h]
    simpa [after, h1] using ih s h

/-- **shutdown_from_every_state**: whatever the task is doing (about to make its first attempt,
    sleeping after a failed open or an ended session, serving an open port), a shutdown command
    and the loss of every handle end it: the end is the last thing observed of this event, it is
    observed once, and the task is over.  Only a task that had not been polled yet makes its one
    open attempt first. -/
theorem shutdown_from_every_state (s : S) (e : Ev) (he : e = .shutdown ∨ e = .dropAll)
    (h : s.phase ≠ .finished) :
    (step s e).1.phase = .finished ∧
    ∃ l, (step s e).2 = l ++ [.ended] ∧ Obs.ended ∉ l ∧
      (s.phase ≠ .starting → l = []) := by
  rcases s with ⟨r, pr, ph⟩
  cases ph
  case finished => exact absurd rfl h
  case starting =>
    cases pr
    · refine ⟨?_, [.failed (afterFailedConnect r).1], ?_, by simp, fun h => absurd rfl h⟩ <;>
        rcases he with he | he <;> subst he <;> simp [step, finish, attempt]
    · refine ⟨?_, [.opened], ?_, by simp, fun h => absurd rfl h⟩ <;>
        rcases he with he | he <;> subst he <;> simp [step, finish, attempt]
  case waiting =>
    refine ⟨?_, [], ?_, by simp, fun _ => rfl⟩ <;>
      rcases he with he | he <;> subst he <;> simp [step, finish]
  case session =>
    refine ⟨?_, [], ?_, by simp, fun _ => rfl⟩ <;>
      rcases he with he | he <;> subst he <;> simp [step, finish]

/-- … on reachable states, spelled out for scripts -/
theorem shutdown_ends_run (mn mx : Nat) (pre : List Ev) (e : Ev)
    (he : e = .shutdown ∨ e = .dropAll) (rest : List Ev) :
    (after (init mn mx) (pre ++ e :: rest)).phase = .finished := by
  have hafter : after (init mn mx) (pre ++ e :: rest) =
      after (step (after (init mn mx) pre) e).1 rest := by
    simp [after, List.foldl_append]
  rw [hafter]
  apply finished_after
  by_cases h : (after (init mn mx) pre).phase = .finished
  · have h1 : step (after (init mn mx) pre) e = (after (init mn mx) pre, []) := by
      simp [step, h]
    rw [h1]; exact h
  · exact (shutdown_from_every_state _ e he h).1

/-- a running task: `shutdown` / `dropAll` end it with `ended` observed last, any other event
    shows something else and leaves it running -/
theorem step_running (s : S) (e : Ev) (h : s.phase ≠ .finished) :
    ((e = .shutdown ∨ e = .dropAll) ∧ (∃ l, (step s e).2 = l ++ [.ended] ∧ Obs.ended ∉ l) ∧
      (step s e).1.phase = .finished) ∨
    (e ≠ .shutdown ∧ e ≠ .dropAll ∧ Obs.ended ∉ (step s e).2 ∧ (step s e).1.phase ≠ .finished) := by
  by_cases he : e = .shutdown ∨ e = .dropAll
  · left
    obtain ⟨h1, l, h2, h3, _⟩ := shutdown_from_every_state s e he h
    exact ⟨he, ⟨l, h2, h3⟩, h1⟩
  · right
    rcases s with ⟨r, pr, ph⟩
    cases ph <;> cases e <;> cases pr <;>
      simp_all [step, attempt, sessionError]

theorem outputs_running (es : List Ev) : ∀ s : S, s.phase ≠ .finished →
    (Obs.ended ∉ outputs s es ∧ (after s es).phase ≠ .finished) ∨
    (∃ l, outputs s es = l ++ [.ended] ∧ Obs.ended ∉ l ∧ (after s es).phase = .finished) := by
  induction es with
  | nil => intro s h; left; exact ⟨by simp [outputs], h⟩
  | cons e es ih =>
    intro s h
    rcases step_running s e h with ⟨_, ⟨l, h2, h2'⟩, h3⟩ | ⟨_, _, h2, h3⟩
    · right
      refine ⟨l, ?_, h2', ?_⟩
      · simp [outputs, h2, finished_outputs es _ h3]
      · simpa [after] using finished_after es _ h3
    · rcases ih _ h3 with ⟨a, b⟩ | ⟨l, a, b, c⟩
      · left
        refine ⟨?_, by simpa [after] using b⟩
        simp only [outputs, List.mem_append]
        exact fun h => h.elim h2 a
      · right
        refine ⟨(step s e).2 ++ l, by simp [outputs, a], ?_, by simpa [after] using c⟩
        simp only [List.mem_append]
        exact fun h => h.elim h2 b

/-- **ended_final**: for every script the end of the task is observed exactly once, as the last
    element (every run ends with a shutdown command). -/
theorem ended_final (mn mx : Nat) (script : List Ev) :
    ∃ l, SerialServer.run mn mx script = l ++ [.ended] ∧ Obs.ended ∉ l := by
  unfold SerialServer.run
  rw [outputs_append]
  rcases outputs_running script (init mn mx) (by simp [init]) with ⟨a, b⟩ | ⟨l, a, b, c⟩
  · rcases step_running _ .shutdown b with ⟨_, ⟨l, h2, h2'⟩, _⟩ | ⟨h1, _, _, _⟩
    · refine ⟨outputs (init mn mx) script ++ l, by simp [outputs, h2], ?_⟩
      simp only [List.mem_append]
      exact fun h => h.elim a h2'
    · exact absurd rfl h1
  · exact ⟨l, by simp [a, finished_outputs _ _ c], b⟩

/-! ### non-vacuity -/

open Ev Obs in
/-- two failures, a successful open, a request, a bad frame: the wait is the minimum, and so is the
    delay of the failed open that follows -/
example : SerialServer.run 40 160 [absent, absent, present, frame, badFrame, absent, absent, present] =
    [failed 40, failed 80, opened, reply, reopen 40, failed 40, failed 80, opened, ended] := by decide

open Ev Obs in
/-- the same with a lost port, capped -/
example : SerialServer.run 40 100 [absent, absent, absent, present, lost, absent, absent, absent, absent] =
    [failed 40, failed 80, failed 100, opened, reopen 40, failed 40, failed 80, failed 100, failed 100, ended] := by
  decide

open Ev Obs in
/-- a task that is shut down before it ran makes its one attempt; later events show nothing -/
example : SerialServer.run 40 160 [shutdown, present, frame] = [failed 40, ended] := by decide

open Ev Obs in
example : SerialServer.run 40 160 [] = [failed 40, ended] := by decide

open Ev Obs in
/-- dropping every handle while the port is open; requests outside a session are not answered -/
example : SerialServer.run 40 160 [frame, absent, frame, present, frame, dropAll, frame] =
    [failed 40, opened, reply, ended] := by decide

open Ev Obs in
/-- min > max: failed opens wait `max`, an ended session waits `min` (`after_disconnect` is not capped) -/
example : SerialServer.run 60 20 [absent, present, lost, absent] =
    [failed 20, opened, reopen 60, failed 20, ended] := by decide

open Ev in
/-- the hypothesis of the restart theorems is satisfiable -/
example : (after (init 40 160) [absent, absent, present]).phase = .session := by decide

/-- the check is not trivially true: `reset` forgotten / `after_failed_connect` after a session -/
example : conforms 40 160 false 0
    [.failed 40, .failed 80, .opened, .reopen 40, .failed 160, .ended] = false := by decide
example : conforms 40 160 false 0
    [.failed 40, .opened, .reopen 80, .ended] = false := by decide
example : conforms 40 160 false 0 [.failed 40, .reply, .ended] = false := by decide

end Rodbus.C14Server
