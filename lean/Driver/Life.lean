import RodbusModel.Model.Lifecycle
import RodbusModel.Spec.Lifecycle
/-
  `life` suite: model output for
  life r<min>.<max> m<maxto> t<timeout> [tls:]<behaviours> <stops>

  behaviours: refuse | close | garbage | silent | serve, and (TLS mode only) hsclose | hsgarbage |
  hscert — three ways of making the handshake fail after the TCP connect succeeded, all of them
  the model's `Behaviour.hsfail`.  The `tls:` prefix selects the TLS client in the harness; the
  model is the same task.
  stops: `,`-joined; a stop is `-` or `+`-joined actions E D S X R L<level>; `<stop>*<n>` stands
  for `n` copies of the stop, `<behaviour>*<n>` for `n` attempts with that behaviour.
-/
namespace Rodbus.Driver
open Rodbus.Life

def stStr : St → String
  | .disabled => "Disabled" | .connecting => "Connecting" | .connected => "Connected"
  | .waitFail d => s!"WaitFail({d})" | .waitDisc d => s!"WaitDisc({d})" | .shutdown => "Shutdown"

def actStr : Action → String
  | .enable => "a:E" | .disable => "a:D" | .shutdown => "a:S" | .dropAll => "a:X"
  | .request id => s!"a:R{id}"
  | .setDecode l => s!"a:L{l}"

def evStr : Ev → String
  | .gate s => "g:" ++ stStr s
  | .idle => "idle"
  | .act a => actStr a
  | .done id r => s!"done:R{id}:{r}"

def parseBehaviour (s : String) : Behaviour :=
  if s = "refuse" then .refuse else if s = "close" then .close else if s = "garbage" then .garbage
  else if s = "silent" then .silent
  else if s = "hsclose" ∨ s = "hsgarbage" ∨ s = "hscert" then .hsfail else .serve

/-- `<stop>*<n>` / `<behaviour>*<n>`: `n` copies of the stop / `n` attempts with the behaviour -/
def expandStops (stops : List String) : List String :=
  stops.flatMap fun st =>
    match st.splitOn "*" with
    | [x, n] => List.replicate (n.toNat?.getD 1) x
    | _ => [st]

/-- request ids are assigned in submission order (`R` actions performed while a handle exists) -/
def parseStops (stops : List String) : List (List Action) :=
  let rec go (n : Nat) (alive : Bool) : List String → List (List Action)
    | [] => []
    | st :: rest =>
      let (acts, n', alive') := (st.splitOn "+").foldl
        (fun (acc : List Action × Nat × Bool) a =>
          let (l, n, alive) := acc
          if a = "E" then (l ++ [.enable], n, alive)
          else if a = "D" then (l ++ [.disable], n, alive)
          else if a = "S" then (l ++ [.shutdown], n, alive)
          else if a = "X" then (l ++ [.dropAll], n, false)
          else if a = "R" then (if alive then (l ++ [.request (n + 1)], n + 1, alive) else (l, n, alive))
          else if a.startsWith "L" then
            (l ++ [.setDecode ((String.ofList a.toList.tail).toNat?.getD 0)], n, alive)
          else (l, n, alive)) ([], n, alive)
      acts :: go n' alive' rest
  go 0 true stops

def runLife (tok : List String) : String × String :=
  match tok with
  | [_, r, m, _t, bs, stops] =>
    let rr := (String.ofList r.toList.tail).splitOn "."
    let rmin := (rr.getD 0 "0").toNat?.getD 0
    let rmax := (rr.getD 1 "0").toNat?.getD 0
    let maxto := (String.ofList m.toList.tail).toNat?.getD 0
    let bs := if bs.startsWith "tls:" then String.ofList (bs.toList.drop 4) else bs
    let behaviours := (expandStops (bs.splitOn "/")).map parseBehaviour
    let script := if stops = "-" then [] else parseStops (expandStops (stops.splitOn ","))
    let s0 : S := { retry := Retry.create rmin rmax, behaviours := behaviours, maxto := maxto }
    let (s1, p1) := start s0
    let (s2, _) := runStops s1 p1 (script ++ [[], []])
    let log := s2.log.map evStr
    let after := if s2.handles then "shutdown" else "-"
    let out := (if log.isEmpty then "-" else ";".intercalate log) ++
      s!" | shutdown_seen=true fin=term after={after} acc=ok"
    -- specification side: the same observable log, but only if it is a legal state path
    let spec := if Spec.Life.legalLog s2.log then out else "ILLEGAL-PATH " ++ out
    (out, spec)
  | _ => ("bad-case", "bad-case")

/-- `slife r<min us>.<max us> <n>`: the serial channel task's announced wait delays when every
    open fails are the strategy's consecutive-failure delays -/
def runSlife (tok : List String) : String × String :=
  match tok with
  | [_, r, n] =>
    let rr := (String.ofList r.toList.tail).splitOn "."
    let rmin := (rr.getD 0 "0").toNat?.getD 0
    let rmax := (rr.getD 1 "0").toNat?.getD 0
    let k := n.toNat?.getD 0
    let model := Retry.failures (Retry.create rmin rmax) k
    -- specification: min * 2^i capped at max
    let spec := (List.range k).map fun i => Nat.min (rmin * 2 ^ i) rmax
    let show_ (l : List Nat) := if l.isEmpty then "-" else ",".intercalate (l.map toString)
    (show_ model, show_ spec)
  | _ => ("bad-case", "bad-case")

end Rodbus.Driver
