import RodbusModel.Model.Basic
/-
  M10: `SessionTracker` (tcp/server.rs): a `BTreeMap<u128, Sender>` keyed by a strictly increasing
  id; `add` evicts the smallest key when the map is full.
-/
namespace Rodbus.Tracker

structure Tracker where
  max : Nat
  next : Nat
  /-- keys of the `BTreeMap`, ascending -/
  ids : List Nat
deriving DecidableEq, Repr

/-- `SessionTracker::new` (0 is treated as 1) -/
def new (maxSessions : Nat) : Tracker := ⟨if maxSessions = 0 then 1 else maxSessions, 0, []⟩

/-- `SessionTracker::add`: returns the assigned id -/
def add (t : Tracker) : Nat × Tracker :=
  let ids := if t.ids.length ≥ t.max then t.ids.drop 1 else t.ids
  (t.next, ⟨t.max, t.next + 1, ids ++ [t.next]⟩)

/-- `SessionTracker::remove` -/
def remove (t : Tracker) (id : Nat) : Tracker := { t with ids := t.ids.filter (· ≠ id) }

inductive Op | add | remove (id : Nat)
deriving DecidableEq, Repr

def step (t : Tracker) : Op → Tracker
  | .add => (add t).2
  | .remove id => remove t id

def run (t : Tracker) (ops : List Op) : Tracker := ops.foldl step t

end Rodbus.Tracker
