import Driver.Points
import Driver.Misc
import Driver.Server
import Driver.Main
