import RodbusModel.Model.SerialServer
/-
  Specification side of C14 for the RTU server task, written without the retry-strategy object:
  a counter `k` of failed open attempts since the last successful open (or since the start) and
  the closed form `min(min · 2^k, max)`.

  Two forms:
  * `run`: the observations of a script, from the counter;
  * `conforms`: a check of an observed sequence alone (no script): every `failed d` carries
    `min(min · 2^k, max)`, k = number of `failed` since the last `opened` (or since the start);
    every `reopen d` carries `min` and occurs only while the port is open (after `opened`, with
    nothing but replies in between); replies occur only while the port is open; nothing follows
    `ended`.
-/
namespace Rodbus.Spec.SerialServer
open Rodbus.SerialServer (Obs Ev)

inductive Mode | starting | waiting | open_ | done
deriving DecidableEq, Repr

structure T where
  mode : Mode := .starting
  /-- the device path exists -/
  present : Bool := false
  /-- failed open attempts since the last successful open (or since the start) -/
  k : Nat := 0
deriving DecidableEq, Repr

/-- the delay after the (k+1)-th consecutive failure -/
def delay (mn mx k : Nat) : Nat := Nat.min (mn * 2 ^ k) mx

/-- an open attempt -/
def attempt (mn mx : Nat) (t : T) : T × List Obs :=
  if t.present then ({ t with mode := .open_, k := 0 }, [.opened])
  else ({ t with mode := .waiting, k := t.k + 1 }, [.failed (delay mn mx t.k)])

def step (mn mx : Nat) (t : T) (e : Ev) : T × List Obs :=
  match t.mode with
  | .done => (t, [])
  | .starting =>
    match e with
    | .absent => attempt mn mx { t with present := false }
    | .present => attempt mn mx { t with present := true }
    | .lost => ({ t with present := false }, [])
    -- the first attempt is made before the command is seen
    | .shutdown | .dropAll =>
      ({ (attempt mn mx t).1 with mode := .done }, (attempt mn mx t).2 ++ [.ended])
    | .frame | .badFrame | .pause => (t, [])
  | .waiting =>
    match e with
    | .absent => attempt mn mx { t with present := false }
    | .present => attempt mn mx { t with present := true }
    | .lost => ({ t with present := false }, [])
    | .shutdown | .dropAll => ({ t with mode := .done }, [.ended])
    | .frame | .badFrame | .pause => (t, [])
  | .open_ =>
    match e with
    -- after an ended session the wait is `min`
    | .lost => ({ t with present := false, mode := .waiting }, [.reopen mn])
    | .badFrame => ({ t with mode := .waiting }, [.reopen mn])
    | .absent => ({ t with present := false }, [])
    | .present => ({ t with present := true }, [])
    | .shutdown | .dropAll => ({ t with mode := .done }, [.ended])
    | .frame => (t, [.reply])
    | .pause => (t, [])

def after (mn mx : Nat) (t : T) (es : List Ev) : T := es.foldl (fun t e => (step mn mx t e).1) t

def outputs (mn mx : Nat) : T → List Ev → List Obs
  | _, [] => []
  | t, e :: es => (step mn mx t e).2 ++ outputs mn mx (step mn mx t e).1 es

def run (mn mx : Nat) (script : List Ev) : List Obs :=
  outputs mn mx {} (script ++ [.shutdown])

/-- check of an observed sequence: `isOpen` = the port is open (the last announcement was
    `opened`), `k` = failed opens since the last `opened` (or the start) -/
def conforms (mn mx : Nat) : Bool → Nat → List Obs → Bool
  | _, _, [] => true
  | false, _, .opened :: rest => conforms mn mx true 0 rest
  | false, k, .failed d :: rest => d == delay mn mx k && conforms mn mx false (k + 1) rest
  | true, k, .reopen d :: rest => d == mn && conforms mn mx false k rest
  | true, k, .reply :: rest => conforms mn mx true k rest
  | _, _, .ended :: rest => rest.isEmpty
  -- an open attempt while the port is open, a session end or a reply while it is closed
  | true, _, .opened :: _ => false
  | true, _, .failed _ :: _ => false
  | false, _, .reopen _ :: _ => false
  | false, _, .reply :: _ => false

end Rodbus.Spec.SerialServer
