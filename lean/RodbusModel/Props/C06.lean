import RodbusModel.Lemmas.Rtu
import RodbusModel.Gen.Tables
/-
  C06  RTU frames are emitted with a correct CRC and accepted only if the CRC verifies.

  Only property theorems and non-vacuity examples; the proofs are in Lemmas/Crc.lean and
  Lemmas/Rtu.lean.  Vocabulary:
    `format dest pdu`      the frame `format_rtu_pdu` writes        (Model/Rtu.lean)
    `parse d`, `run d`     `RtuParser::parse`, the framed reader    (Model/Rtu.lean, Buffer.lean)
    `specFrames d stream`  whole-stream specification               (Spec/Rtu.lean)
    `frameLen?`, `frameSpan`, `pduLenRule`, `WellFormedPdu`         (Spec/Rtu.lean)
    `leNat`, `xorBytes`, `SingleBit`, `DoubleBit`, `Burst16`        (Lemmas/Crc.lean)
-/
namespace Rodbus.C06
open Rodbus.Crc Rodbus.Rtu

/-! ## 1. Emission -/

/-- every emitted frame is address, PDU and the CRC-16/MODBUS of address and PDU, low byte first -/
theorem format_crc (dest : Nat) (pdu : Bytes) :
    format dest pdu = dest :: pdu ++ u16le (crc (dest :: pdu)) := rfl

theorem format_len (dest : Nat) (pdu : Bytes) : (format dest pdu).length = pdu.length + 3 :=
  format_length dest pdu

/-- a PDU of at most 253 bytes gives a frame of at most 256 bytes -/
theorem format_len_le (dest : Nat) (pdu : Bytes) (h : pdu.length ≤ 253) :
    (format dest pdu).length ≤ 256 := by
  rw [format_length]; omega

/-- the CRC is a 16-bit value, so the two trailer bytes carry all of it -/
theorem crc_lt (bs : Bytes) (h : Bytes.WF bs) : crc bs < 65536 := Crc.crc_lt bs h

theorem format_wf (dest : Nat) (pdu : Bytes) (hd : dest < 256) (hp : Bytes.WF pdu) :
    Bytes.WF (format dest pdu) :=
  Bytes.WF_append.2 ⟨Bytes.WF_cons.2 ⟨hd, hp⟩, u16le_wf _⟩

/-! ## 2. Acceptance: a frame is delivered only if the CRC verifies over the delimited span -/

/-- Parser call from `Start` that delivers a frame: the bytes consumed are address, PDU and the
    CRC of address and PDU (low byte first), and the PDU length is the one the length rule
    (`frameLen?`: function code and byte count) selects. -/
theorem accept_sound (d : Dir) (rb : RB) (f : Frame) (st' : PState) (rb' : RB)
    (hw : Bytes.WF rb.data) (h : parse d .start rb = (.frame f, st', rb')) :
    rb.data = f.dest :: f.pdu ++ u16le (crc (f.dest :: f.pdu)) ++ rb'.data
      ∧ f.tx = none ∧ st' = .start
      ∧ ∃ n, frameLen? d rb.data = .len n ∧ f.pdu.length = 1 + n ∧ f.pdu.length ≤ 253 := by
  obtain ⟨n, hfl, hn, ha⟩ := parseStart_frame d rb f st' rb' h
  have hst : st' = .start := by
    have := parse_sim d .start rb [] trivial
    rw [h] at this; exact this.2.1
  obtain ⟨dest, fc, t, hdata⟩ := frameLen?_cons_of_len d rb.data n hfl
  rw [hdata] at ha hw ⊢
  simp only [List.headD_cons, List.drop_succ_cons, List.drop_zero] at ha
  have hwt : Bytes.WF (fc :: t) := (Bytes.WF_cons.1 hw).2
  have hd := ha.2.1
  have hl := ha.2.2.1
  refine ⟨?_, ha.1, hst, n, by rw [← hdata]; exact hfl, by omega, by omega⟩
  rw [ha.wf hwt, hd]; simp

/-- the same for a call that resumes in `ReadToOffsetForLength(dest, off)` -/
theorem accept_sound_toOffset (d : Dir) (dest off : Nat) (rb : RB) (f : Frame) (st' : PState)
    (rb' : RB) (hw : Bytes.WF rb.data)
    (h : parse d (.toOffset dest off) rb = (.frame f, st', rb')) :
    rb.data = f.pdu ++ u16le (crc (f.dest :: f.pdu)) ++ rb'.data ∧ f.dest = dest ∧ f.tx = none
      ∧ ∃ extra, f.pdu[off]? = some extra ∧ f.pdu.length = 1 + (off + extra)
          ∧ f.pdu.length ≤ 253 := by
  obtain ⟨extra, he, ha, hl⟩ := parseToOffset_frame dest off rb f st' rb' h
  exact ⟨ha.wf hw, ha.2.1, ha.1, extra, he, by have := ha.2.2.1; omega, by have := ha.2.2.1; omega⟩

/-- the same for a call that resumes in `ReadFullBody(dest, len)` -/
theorem accept_sound_fullBody (d : Dir) (dest len : Nat) (rb : RB) (f : Frame) (st' : PState)
    (rb' : RB) (hw : Bytes.WF rb.data)
    (h : parse d (.fullBody dest len) rb = (.frame f, st', rb')) :
    rb.data = f.pdu ++ u16le (crc (f.dest :: f.pdu)) ++ rb'.data ∧ f.dest = dest ∧ f.tx = none
      ∧ f.pdu.length = 1 + len ∧ f.pdu.length ≤ 253 := by
  obtain ⟨ha, hl⟩ := parseFullBody_frame dest len rb f st' rb' h
  exact ⟨ha.wf hw, ha.2.1, ha.1, by have := ha.2.2.1; omega, by have := ha.2.2.1; omega⟩

/-- Whole-stream form: every frame event of a byte stream is carried by a span
    `dest :: pdu ++ crcLE (dest :: pdu)` of the stream (= `format dest pdu`), and that span is
    exactly what the length rule delimits. -/
theorem accept_sound_stream (d : Dir) (s : Bytes) (hw : Bytes.WF s) (f : Frame)
    (h : Event.frame f ∈ specFrames d s) :
    ∃ pre post, s = pre ++ format f.dest f.pdu ++ post ∧ f.tx = none
      ∧ frameSpan d (format f.dest f.pdu) = some (format f.dest f.pdu).length :=
  specFrames_frame_mem d s.length s (Nat.le_refl _) hw f h

/-- The guards of `ReadBuffer::read_u8`, `peek_at`, `read` and `read_u16_le` hold at every call
    site of the parser: a parser call reports only framing errors, never
    `InternalError::InsufficientBytesForRead`.  In particular both `peek_at` calls are strictly
    in bounds (see `peek_in_bounds`), so the off-by-one of the Rust guard (`len < idx` instead of
    `len <= idx`) is unreachable from this parser. -/
theorem parse_no_internal_error (d : Dir) (st : PState) (rb : RB) (e : FrameErr) (st' : PState)
    (rb' : RB) (h : parse d st rb = (.err e, st', rb')) :
    e ≠ .internalShortRead ∧ e ≠ .spuriousEof
      ∧ ((∃ fc, e = .unknownFunctionCode fc) ∨ (∃ n, e = .frameLengthTooBig n 253)
          ∨ ∃ r x, r ≠ x ∧ e = .crcValidationFailure r x) := by
  have hf : FramingErr e := parse_err d st rb e st' rb' h
  refine ⟨?_, ?_, hf⟩ <;>
  · rcases hf with ⟨_, h⟩ | ⟨_, h⟩ | ⟨_, _, _, h⟩ <;> rw [h] <;> simp

/-- the two `peek_at` sites: after the length checks of the parser the index is `< len` -/
theorem peek_in_bounds (rb : RB) :
    (¬ rb.len < 2 → 0 < (rb.consume 1).len ∧ peekAt (rb.consume 1) 0 = some (rb.data.getD 1 0))
    ∧ (∀ off, ¬ rb.len < 1 + off →
        1 + off - 1 < rb.len ∧ peekAt rb (1 + off - 1) = some (rb.data.getD off 0)) := by
  constructor
  · intro h
    have h1 : 0 < (rb.consume 1).data.length := by simp [RB.consume, RB.len] at h ⊢; omega
    refine ⟨h1, ?_⟩
    rw [peekAt_of_lt _ 0 h1]; simp [RB.consume]
  · intro off h
    have h1 : 1 + off - 1 < rb.data.length := by simp [RB.len] at h; omega
    refine ⟨h1, ?_⟩
    rw [peekAt_of_lt _ _ h1]
    have : 1 + off - 1 = off := by omega
    rw [this]

/-! ## 3. The frame length is derived identically for every chunking -/

/-- For every direction and every way the transport cuts the byte stream into deliveries, the
    buffered reader reports exactly the events of the whole stream. -/
theorem rtu_chunking_independent (d : Dir) (chunks : List Bytes) :
    Rtu.run d chunks = specFrames d chunks.flatten := by
  have := runChunks_spec d chunks .start RB.empty (by simp [Rtu.Inv, RB.empty, CAP]) trivial
    (by simp [need, RB.empty])
  simpa [Rtu.run, specFrom, RB.empty] using this

/-- `read_some` is never called on a full buffer: no spurious `UnexpectedEof` -/
theorem no_spurious_eof (d : Dir) (chunks : List Bytes) :
    Event.err .spuriousEof ∉ Rtu.run d chunks := by
  rw [rtu_chunking_independent]
  intro h
  rcases specFrames_err_mem d _ _ (Nat.le_refl _) _ h with ⟨_, h⟩ | ⟨_, h⟩ | ⟨_, _, _, h⟩ <;>
    simp at h

/-- no run of the reader ever hits an `InsufficientBytesForRead` guard -/
theorem no_internal_short_read (d : Dir) (chunks : List Bytes) :
    Event.err .internalShortRead ∉ Rtu.run d chunks := by
  rw [rtu_chunking_independent]
  intro h
  rcases specFrames_err_mem d _ _ (Nat.le_refl _) _ h with ⟨_, h⟩ | ⟨_, h⟩ | ⟨_, _, _, h⟩ <;>
    simp at h

/-- every error the reader reports is one of the three framing errors, and a CRC error carries
    two different values -/
theorem run_errors (d : Dir) (chunks : List Bytes) (e : FrameErr)
    (h : Event.err e ∈ Rtu.run d chunks) :
    (∃ fc, e = .unknownFunctionCode fc) ∨ (∃ n, e = .frameLengthTooBig n 253)
      ∨ ∃ r x, r ≠ x ∧ e = .crcValidationFailure r x := by
  rw [rtu_chunking_independent] at h
  exact specFrames_err_mem d _ _ (Nat.le_refl _) _ h

/-- every frame the reader delivers, under any chunking, is a CRC-correct span of the stream -/
theorem run_accept_sound (d : Dir) (chunks : List Bytes) (hw : Bytes.WF chunks.flatten)
    (f : Frame) (h : Event.frame f ∈ Rtu.run d chunks) :
    ∃ pre post, chunks.flatten = pre ++ format f.dest f.pdu ++ post ∧ f.tx = none
      ∧ frameSpan d (format f.dest f.pdu) = some (format f.dest f.pdu).length := by
  rw [rtu_chunking_independent] at h
  exact accept_sound_stream d _ hw f h

/-! ## 4. Round trip -/

/-- a frame emitted for a PDU that obeys the length rule of the receiving direction is
    delivered unchanged, and the rest of the stream is parsed from the byte after its CRC -/
theorem format_parse_roundtrip (d : Dir) (dest : Nat) (pdu rest : Bytes) (hd : dest < 256)
    (h : WellFormedPdu d pdu) :
    specFrames d (format dest pdu ++ rest) = .frame ⟨none, dest, pdu⟩ :: specFrames d rest :=
  specFrames_format d dest pdu rest hd h

/-- the same through the buffered reader, for every chunking of the frame -/
theorem format_run_roundtrip (d : Dir) (dest : Nat) (pdu : Bytes) (chunks : List Bytes)
    (hd : dest < 256) (h : WellFormedPdu d pdu) (hc : chunks.flatten = format dest pdu) :
    Rtu.run d chunks = [.frame ⟨none, dest, pdu⟩] := by
  have := specFrames_format d dest pdu [] hd h
  rw [rtu_chunking_independent, hc]
  rw [List.append_nil, specFrames_short d [] (by simp)] at this
  exact this

/-- `WellFormedPdu d` is exactly "the emitted frame delimits itself under the length rule of `d`":
    the hypothesis of the round trip is also necessary (cf. `accept_sound_stream`) -/
theorem wellFormedPdu_iff_span (d : Dir) (dest : Nat) (pdu : Bytes) (hw : Bytes.WF pdu)
    (hl : pdu.length ≤ 253) :
    WellFormedPdu d pdu ↔ frameSpan d (format dest pdu) = some (format dest pdu).length :=
  ⟨fun h => h.span dest, wellFormedPdu_of_span d dest pdu hw hl⟩

/-! ## 5. CRC algebra -/

/-- the register step is linear over xor -/
theorem g_xor (a b : Nat) : g (a ^^^ b) = g a ^^^ g b := Crc.g_xor a b

/-- any number of register steps is linear over xor -/
theorem iter_g_xor (n a b : Nat) : iter g n (a ^^^ b) = iter g n a ^^^ iter g n b :=
  Crc.iter_xor n a b

/-- the register step is injective on 16-bit values -/
theorem g_injective (a b : Nat) (ha : a < 65536) (hb : b < 65536) (h : g a = g b) : a = b :=
  Crc.g_injective a b ha hb h

/-- any number of register steps is injective on 16-bit values -/
theorem iter_g_injective (n a b : Nat) (ha : a < 65536) (hb : b < 65536)
    (h : iter g n a = iter g n b) : a = b :=
  Crc.iter_injective n a b ha hb h

/-- the byte-wise CRC is `8·len` register steps applied to `init ⊕ N`, `N` the frame read as a
    little-endian number (bit order = transmission order) -/
theorem crc_eq_iter (bs : Bytes) (h : Bytes.WF bs) :
    crc bs = iter g (8 * bs.length) (0xFFFF ^^^ leNat bs) := Crc.crcFrom_eq bs h 0xFFFF

/-- the residue of a corrupted frame is the residue of the frame xor the syndrome of the error -/
theorem crc_xor_error (f e : Bytes) (hf : Bytes.WF f) (he : Bytes.WF e)
    (hl : f.length = e.length) :
    crc (xorBytes f e) = crc f ^^^ iter g (8 * f.length) (leNat e) :=
  Crc.crc_xorBytes f e hf he hl

/-- every burst of at most 16 bits (window `w`, shifted to bit `k` of an `n`-bit frame) has a
    non-zero syndrome -/
theorem burst_detected (n k w : Nat) (hw : 0 < w) (hw16 : w < 65536) (hk : k ≤ n) :
    iter g n (w * 2 ^ k) ≠ 0 := Crc.burst_detected n k w hw hw16 hk

/-- every single-bit error has a non-zero syndrome -/
theorem single_bit_detected (n k : Nat) (hk : k ≤ n) : iter g n (2 ^ k) ≠ 0 :=
  Crc.single_bit_detected n k hk

/-- every double-bit error with the two bits at most 2100 positions apart (any two bits of a
    frame of up to 262 bytes; the largest RTU frame has 256 bytes = 2048 bits, the read buffer
    260 bytes = 2080 bits) has a non-zero syndrome -/
theorem double_bit_detected (n i j : Nat) (hij : i < j) (hjn : j < n) (hd : j - i ≤ 2100) :
    iter g n (2 ^ i ^^^ 2 ^ j) ≠ 0 := Crc.double_bit_detected n i j hij hjn hd

/-- bridge: the running CRC over body and trailer is 0 exactly when the trailer is the CRC of
    the body, low byte first -/
theorem crc_trailer_zero_iff (body : Bytes) (c : Nat) (hc : c < 65536) (hb : Bytes.WF body) :
    crc (body ++ u16le c) = 0 ↔ c = crc body := Crc.crc_trailer_zero_iff body c hc hb

/-! ## 6. Corruption the CRC detects is rejected -/

/-- For every frame `body ++ crcLE (crc body)` and every error pattern `e` of the same length
    that flips a single bit, two bits (frames up to 262 bytes) or bits within a window of 16
    consecutive bits in transmission order, the corrupted frame fails the receiver's check:
    its last two bytes are not the CRC of the bytes before them. -/
theorem corrupted_frame_crc_mismatch (body e body' : Bytes) (lo hi : Nat)
    (hb : Bytes.WF body) (he : Bytes.WF e) (hl : e.length = body.length + 2)
    (hpat : SingleBit e ∨ Burst16 e ∨ (DoubleBit e ∧ e.length ≤ 262))
    (hx : xorBytes (body ++ u16le (crc body)) e = body' ++ [lo, hi]) :
    be16 hi lo ≠ crc body' :=
  corrupted_trailer_mismatch body e body' lo hi hb he hl hpat hx

/-- the same, as a statement about the residue: the corrupted frame does not have residue 0 -/
theorem corrupted_frame_residue (body e : Bytes) (hb : Bytes.WF body) (he : Bytes.WF e)
    (hl : e.length = body.length + 2)
    (hpat : SingleBit e ∨ Burst16 e ∨ (DoubleBit e ∧ e.length ≤ 262)) :
    crc (xorBytes (body ++ u16le (crc body)) e) ≠ 0 :=
  corrupted_residue_ne_zero _ e (Bytes.WF_append.2 ⟨hb, u16le_wf _⟩) he
    (by simp [u16le]; omega) (crc_valid_frame body hb) hpat

/-
  Full statement (NOT provable, and false for this protocol):

    theorem corruption_rejected (d dest pdu e rest) (hd : dest < 256) (hp : WellFormedPdu d pdu)
        (he : Bytes.WF e) (hl : e.length = (format dest pdu).length)
        (hpat : SingleBit e ∨ Burst16 e ∨ DoubleBit e) :
        ∀ f, Event.frame f ∉ specFrames d (xorBytes (format dest pdu) e ++ rest)

  An RTU receiver without inter-frame timing delimits a frame from its function code and byte
  count.  A flipped bit in one of those bytes makes the receiver check the CRC over a *different*
  span, about which the CRC of the original frame says nothing; the example
  `byte_count_flip_accepted` below exhibits a single-bit error whose shortened span carries a
  valid CRC and is accepted.  The hypothesis `hspan` (the corrupted stream is delimited at the
  same length) is therefore forced by the protocol, not by the proof; `accept_sound` is what
  holds without it.
-/

/-- A valid frame hit by a single-bit, double-bit or ≤16-bit burst error that leaves the length
    rule's result unchanged is answered with a CRC error and nothing else: no frame event (hence
    no handler call, no reply, no accepted response), and the session ends. -/
theorem corruption_rejected_partial (d : Dir) (dest : Nat) (pdu e rest : Bytes) (hd : dest < 256)
    (hp : WellFormedPdu d pdu) (he : Bytes.WF e) (hl : e.length = (format dest pdu).length)
    (hpat : SingleBit e ∨ Burst16 e ∨ DoubleBit e)
    (hspan : frameSpan d (xorBytes (format dest pdu) e) = some (format dest pdu).length) :
    ∃ r x, r ≠ x ∧
      specFrames d (xorBytes (format dest pdu) e ++ rest) = [.err (.crcValidationFailure r x)] :=
  specFrames_corrupted d dest pdu e rest hd hp he hl hpat hspan

/-- the same through the buffered reader, for every chunking of the corrupted stream -/
theorem corruption_rejected_run_partial (d : Dir) (dest : Nat) (pdu e rest : Bytes)
    (chunks : List Bytes) (hd : dest < 256)
    (hp : WellFormedPdu d pdu) (he : Bytes.WF e) (hl : e.length = (format dest pdu).length)
    (hpat : SingleBit e ∨ Burst16 e ∨ DoubleBit e)
    (hspan : frameSpan d (xorBytes (format dest pdu) e) = some (format dest pdu).length)
    (hc : chunks.flatten = xorBytes (format dest pdu) e ++ rest) :
    (∃ r x, r ≠ x ∧ Rtu.run d chunks = [.err (.crcValidationFailure r x)])
      ∧ ∀ f, Event.frame f ∉ Rtu.run d chunks := by
  obtain ⟨r, x, hrx, h⟩ := specFrames_corrupted d dest pdu e rest hd hp he hl hpat hspan
  rw [rtu_chunking_independent, hc, h]
  exact ⟨⟨r, x, hrx, rfl⟩, by simp⟩

/-- bit numbering of the error patterns: flipping bit `b` of byte `j` (all other bytes untouched)
    is the single-bit pattern at frame bit `8j + b`, i.e. `SingleBit` ranges over all bits of all
    bytes -/
theorem singleBit_at (j m b : Nat) :
    leNat (List.replicate j 0 ++ 2 ^ b :: List.replicate m 0) = 2 ^ (8 * j + b)
      ∧ SingleBit (List.replicate j 0 ++ 2 ^ b :: List.replicate m 0) :=
  ⟨leNat_bit_at j m b, 8 * j + b, leNat_bit_at j m b⟩

/-! ## 7. Non-vacuity: the vectors of the Rust unit tests (serial/frame.rs) -/

-- the `crc` crate's check: CRC_16_MODBUS of READ_COILS_REQUEST without trailer is 0x197A
example : crc [0x2A, 0x01, 0x00, 0x10, 0x00, 0x13] = 0x197A := by decide +kernel
example : format 0x2A [0x01, 0x00, 0x10, 0x00, 0x13]
    = [0x2A, 0x01, 0x00, 0x10, 0x00, 0x13, 0x7A, 0x19] := by decide +kernel
-- WRITE_MULTIPLE_REGISTERS_REQUEST, READ_HOLDING_REGISTERS_RESPONSE
example : format 0x2A [0x10, 0x00, 0x10, 0x00, 0x02, 0x04, 0x12, 0x34, 0x56, 0x78]
    = [0x2A, 0x10, 0x00, 0x10, 0x00, 0x02, 0x04, 0x12, 0x34, 0x56, 0x78, 0x07, 0x73] := by
  decide +kernel
example : format 0x2A [0x03, 0x06, 0x12, 0x34, 0x56, 0x78, 0x23, 0x45]
    = [0x2A, 0x03, 0x06, 0x12, 0x34, 0x56, 0x78, 0x23, 0x45, 0x30, 0x60] := by decide +kernel

-- ALL_REQUESTS in one delivery, one after the other (can_parse_request_frames / two frames)
example : Rtu.run .request
    [[0x2A, 0x01, 0x00, 0x10, 0x00, 0x13, 0x7A, 0x19,
      0x2A, 0x02, 0x00, 0x10, 0x00, 0x13, 0x3E, 0x19,
      0x2A, 0x03, 0x00, 0x10, 0x00, 0x03, 0x02, 0x15,
      0x2A, 0x04, 0x00, 0x10, 0x00, 0x03, 0xB7, 0xD5,
      0x2A, 0x05, 0x00, 0x10, 0xFF, 0x00, 0x8B, 0xE4,
      0x2A, 0x06, 0x00, 0x10, 0x12, 0x34, 0x83, 0x63,
      0x2A, 0x0F, 0x00, 0x10, 0x00, 0x0A, 0x02, 0x12, 0x34, 0x00, 0x2E,
      0x2A, 0x10, 0x00, 0x10, 0x00, 0x02, 0x04, 0x12, 0x34, 0x56, 0x78, 0x07, 0x73]]
    = [.frame ⟨none, 0x2A, [0x01, 0x00, 0x10, 0x00, 0x13]⟩,
       .frame ⟨none, 0x2A, [0x02, 0x00, 0x10, 0x00, 0x13]⟩,
       .frame ⟨none, 0x2A, [0x03, 0x00, 0x10, 0x00, 0x03]⟩,
       .frame ⟨none, 0x2A, [0x04, 0x00, 0x10, 0x00, 0x03]⟩,
       .frame ⟨none, 0x2A, [0x05, 0x00, 0x10, 0xFF, 0x00]⟩,
       .frame ⟨none, 0x2A, [0x06, 0x00, 0x10, 0x12, 0x34]⟩,
       .frame ⟨none, 0x2A, [0x0F, 0x00, 0x10, 0x00, 0x0A, 0x02, 0x12, 0x34]⟩,
       .frame ⟨none, 0x2A, [0x10, 0x00, 0x10, 0x00, 0x02, 0x04, 0x12, 0x34, 0x56, 0x78]⟩] := by
  decide +kernel

-- ALL_RESPONSES
example : Rtu.run .response
    [[0x2A, 0x01, 0x03, 0xCD, 0x6B, 0x05, 0x44, 0x99,
      0x2A, 0x02, 0x03, 0xCD, 0x6B, 0x05, 0x00, 0x99,
      0x2A, 0x03, 0x06, 0x12, 0x34, 0x56, 0x78, 0x23, 0x45, 0x30, 0x60,
      0x2A, 0x04, 0x06, 0x12, 0x34, 0x56, 0x78, 0x23, 0x45, 0x71, 0x86,
      0x2A, 0x05, 0x00, 0x10, 0xFF, 0x00, 0x8B, 0xE4,
      0x2A, 0x06, 0x00, 0x10, 0x12, 0x34, 0x83, 0x63,
      0x2A, 0x0F, 0x00, 0x10, 0x00, 0x0A, 0xD2, 0x12,
      0x2A, 0x10, 0x00, 0x10, 0x00, 0x02, 0x46, 0x16]]
    = [.frame ⟨none, 0x2A, [0x01, 0x03, 0xCD, 0x6B, 0x05]⟩,
       .frame ⟨none, 0x2A, [0x02, 0x03, 0xCD, 0x6B, 0x05]⟩,
       .frame ⟨none, 0x2A, [0x03, 0x06, 0x12, 0x34, 0x56, 0x78, 0x23, 0x45]⟩,
       .frame ⟨none, 0x2A, [0x04, 0x06, 0x12, 0x34, 0x56, 0x78, 0x23, 0x45]⟩,
       .frame ⟨none, 0x2A, [0x05, 0x00, 0x10, 0xFF, 0x00]⟩,
       .frame ⟨none, 0x2A, [0x06, 0x00, 0x10, 0x12, 0x34]⟩,
       .frame ⟨none, 0x2A, [0x0F, 0x00, 0x10, 0x00, 0x0A]⟩,
       .frame ⟨none, 0x2A, [0x10, 0x00, 0x10, 0x00, 0x02]⟩] := by
  decide +kernel

-- byte per byte (can_parse_request_frames_byte_per_byte)
example : Rtu.run .request
    [[0x2A], [0x0F], [0x00], [0x10], [0x00], [0x0A], [0x02], [0x12], [0x34], [0x00], [0x2E]]
    = [.frame ⟨none, 0x2A, [0x0F, 0x00, 0x10, 0x00, 0x0A, 0x02, 0x12, 0x34]⟩] := by
  decide +kernel

-- fails_on_wrong_crc
example : Rtu.run .request [[0x2A, 0x01, 0x00, 0x10, 0x00, 0x13, 0xFF, 0xFF]]
    = [.err (.crcValidationFailure 0xFFFF 0x197A)] := by decide +kernel

-- an exception reply; an unknown function code; a byte count that exceeds the ADU limit
example : Rtu.run .response [[0x2A, 0x83], [0x02, 0xB0], [0xF9]]
    = [.frame ⟨none, 0x2A, [0x83, 0x02]⟩] := by decide +kernel
example : Rtu.run .request [[0x2A], [0x83]] = [.err (.unknownFunctionCode 0x83)] := by
  decide +kernel
example : Rtu.run .response [[0x2A, 0x03], [0xFC]] = [.err (.frameLengthTooBig 254 253)] := by
  decide +kernel

-- the hypotheses of the round-trip and corruption theorems are satisfiable
example : WellFormedPdu .request [0x10, 0x00, 0x10, 0x00, 0x02, 0x04, 0x12, 0x34, 0x56, 0x78] := by
  decide
example : WellFormedPdu .response [0x03, 0x06, 0x12, 0x34, 0x56, 0x78, 0x23, 0x45] := by decide
example : WellFormedPdu .response [0x83, 0x02] := by decide
example : SingleBit [0, 0, 4, 0, 0, 0, 0, 0, 0] := ⟨18, by decide⟩
example : DoubleBit [1, 0, 0, 0, 0, 0, 0, 128] := ⟨0, 63, by decide, by decide⟩
example : Burst16 [0, 0x80, 0xFF, 0x01, 0, 0, 0, 0] := ⟨15, 0x3FF, by decide, by decide, by decide⟩

-- a single-bit error in a data byte: same delimitation, rejected (instance of the theorem)
example : ∃ r x, r ≠ x ∧
    specFrames .response
      (xorBytes (format 0x2A [0x03, 0x04, 0x50, 0xF8, 0x00, 0x00]) [0, 0, 0, 0, 0, 1, 0, 0, 0])
      = [.err (.crcValidationFailure r x)] := by
  have := corruption_rejected_partial .response 0x2A [0x03, 0x04, 0x50, 0xF8, 0x00, 0x00]
    [0, 0, 0, 0, 0, 1, 0, 0, 0] [] (by decide) (by decide) (by decide) (by decide +kernel)
    (Or.inl ⟨40, by decide⟩) (by decide +kernel)
  simpa using this

/-- Why the length hypothesis cannot be dropped: the valid response
    `2A 03 04 50 F8 00 00 crc` (two registers 0x50F8, 0x0000) with a *single* flipped bit in its
    byte count (`04 → 00`) is delimited as the 5-byte frame `2A 03 00 50 F8`, whose trailer
    `50 F8` happens to be the CRC of `2A 03 00`: the receiver accepts a frame that was never
    sent.  This is a limit of RTU framing by length (no inter-frame timing), not a discrepancy
    between model and code; the implementation behaves the same (replayed by the harness). -/
theorem byte_count_flip_accepted :
    WellFormedPdu .response [0x03, 0x04, 0x50, 0xF8, 0x00, 0x00]
    ∧ SingleBit [0, 0, 4, 0, 0, 0, 0, 0, 0]
    ∧ Rtu.run .response
        [xorBytes (format 0x2A [0x03, 0x04, 0x50, 0xF8, 0x00, 0x00]) [0, 0, 4, 0, 0, 0, 0, 0, 0]]
      = [.frame ⟨none, 0x2A, [0x03, 0x00]⟩, .err (.unknownFunctionCode 0x00)] :=
  ⟨by decide, ⟨18, by decide⟩, by decide +kernel⟩


/-! ## The length table regenerated from serial/frame.rs -/

/-- Every arm of `RtuParser::length_mode` (regenerated from the Rust source on every run) is the
    model's answer for that direction and function code; all sixteen (direction, function) pairs
    have an arm; and a byte that is no function code has no length rule (`unknown`) — in responses
    unless its exception bit is set. -/
theorem length_mode_table_correct :
    (∀ row ∈ Gen.lengthMode,
      lengthMode (if row.1 then .response else .request) row.2.1.toByte
        = (if row.2.2.1 then .offset row.2.2.2 else .fixed row.2.2.2)) ∧
    (∀ resp : Bool, ∀ fc : Fc, ∃ row ∈ Gen.lengthMode, row.1 = resp ∧ row.2.1 = fc) ∧
    (∀ b : Fin 256, Fc.ofByte b.val = none →
      lengthMode .request b.val = .unknown ∧
      (b.val &&& 0x80 = 0 → lengthMode .response b.val = .unknown)) := by
  refine ⟨by decide, ?_, by decide +kernel⟩
  intro resp fc; cases resp <;> cases fc <;> decide

/-- the frame constants of serial/frame.rs and tcp/frame.rs are the ones the model uses -/
theorem frame_constants_correct :
    Gen.rtuHeaderLength = 1 ∧ Gen.rtuFunctionCodeLength = 1 ∧ Gen.rtuCrcLength = 2
      ∧ Gen.rtuMaxFrameLength = 256 ∧ Gen.maxAduLength = 253
      ∧ Gen.readBufferCapacity = 260 := by decide

end Rodbus.C06
