"""Per-property configuration of tools/check.py."""
import re

TRUSTED_BASE = [
    "Lean 4.33.0 kernel (theorems) and compiler (compiled driver rodbus_model)",
    "axioms: propext, Classical.choice, Quot.sound only (audited per theorem with #print axioms); no native_decide / bv_decide / sorry",
    "tools/translate.py (Rust tables -> Lean Gen/Tables.lean) and the hand-written model (tied to the code only by the correspondence runs)",
    "verif-harness (Rust, production rodbus code in-process via feature verif-hooks), its scripted transport and canonicalisation",
    "rustc, tokio, scursor, crc crate",
]


HOOK_COMMITS = ["30e20bd", "42a3e10", "f48b181"]


def always(*_a):
    return True


def no_key(c, i, sp):
    return None


def classify_rdr(case, impl):
    out = []
    n = impl.count("F")
    out.append("frames=%s" % ("0" if n == 0 else "1" if n == 1 else "2-5" if n <= 5 else "6+"))
    m = re.search(r"E([a-z.]+)", impl)
    out.append("end=" + (m.group(1) if m else "blocked"))
    nchunks = case.split(" ")[-1].count(",") + 1
    out.append("chunks=%s" % ("1" if nchunks == 1 else "2-5" if nchunks <= 5 else "6-50" if nchunks <= 50 else "51+"))
    return out


def nontrivial_rdr(case, impl):
    return impl not in ("-", "")


def classify_srv(case, impl):
    out = []
    m = re.search(r"end=(\S+)", impl)
    out.append("end=" + (m.group(1) if m else "?"))
    out.append("replies=" + ("none" if "tx=- " in impl else "some"))
    out.append("calls=" + ("none" if "calls=- " in impl else "some"))
    tok = case.split(" ")
    out.append("framing=" + tok[1])
    out.append("auth=" + ("none" if tok[3] == "-" else tok[3].split(".")[0].rstrip("0123456789")))
    return out


def nontrivial_srv(case, impl):
    return "tx=- calls=- " not in impl


PROPS = {
    "C05": dict(
        audit_modules=["RodbusModel.Audit.C05"],
        required_theorems=["Rodbus.chunking_independent", "Rodbus.no_spurious_eof",
                           "Rodbus.bad_header_ends_session", "Rodbus.frames_roundtrip",
                           "Rodbus.no_loss_no_reread", "Rodbus.read_has_space"],
        suites=[dict(gen="rdr_mbap", n=(3000, 60000),
                     exhaustive="all chunk compositions of 5 short streams (<=10 bytes quick, <=12 thorough); "
                                "header length fields 0..599 (+3) x protocol id {0,1} quick, all 65536 thorough; "
                                "max-size frame split points; buffer-boundary streams")],
        level_text="Proof: chunking_independent (for every list of reads the buffered two-state reader yields exactly the "
                   "frames/errors of a whole-stream specification), read_has_space / no_spurious_eof (buffer-full spurious EOF "
                   "unreachable), bad_header_ends_session, frames_roundtrip / no_loss_no_reread are Lean theorems over all byte "
                   "streams and all chunkings, by induction and a refinement invariant. The model (ReadBuffer, MbapParser, "
                   "FramedReader loop) is hand-written and tied to the code by running the production FramedReader on the same "
                   "chunk schedules (exhaustive compositions of short streams, all header length fields, buffer-boundary streams, random).",
        level_note="Trusted: Lean kernel (axioms propext, Classical.choice, Quot.sound), translator for the frame constants, "
                   "the hand-written model of buffer.rs/tcp/frame.rs/FramedReader (checked only by differential runs), the harness transport. "
                   "Per-connection statement: the client's reader persisting across reconnects is finding F14 (fixed).",
        technique="Lean 4 refinement proof (chunked reader = whole-stream spec) + differential correspondence on chunk schedules",
        classify=classify_rdr, nontrivial=nontrivial_rdr, finding_key=no_key,
        rule="cases = corpus + exhaustive sub-domains + seeded random MBAP streams under random chunkings; "
             "distinct = distinct case line; non-trivial = the reader produced at least one frame or error event",
        assumptions=["the transport delivers bytes in order; a delivery larger than the free buffer space is split by read()",
                     "model of ReadBuffer/MbapParser is hand-written; equality with the code is sampled by the rdr suite"],
    ),
    "C06": dict(
        audit_modules=["RodbusModel.Audit.C06"],
        required_theorems=["Rodbus.C06.format_crc", "Rodbus.C06.format_len_le", "Rodbus.C06.accept_sound",
                           "Rodbus.C06.rtu_chunking_independent", "Rodbus.C06.burst_detected",
                           "Rodbus.C06.single_bit_detected", "Rodbus.C06.double_bit_detected",
                           "Rodbus.C06.crc_trailer_zero_iff", "Rodbus.C06.corrupted_frame_crc_mismatch",
                           "Rodbus.C06.corruption_rejected_partial", "Rodbus.C06.format_parse_roundtrip"],
        suites=[dict(gen="crc", n=(3000, 100000)),
                dict(gen="rdr_rtu", n=(3000, 60000),
                     exhaustive="both parser directions: all chunk compositions of fixed frames <= 9 (11) bytes; every single-bit "
                                "error of 17 fixed frames; double-bit errors (every 23rd pair quick, all pairs thorough); "
                                "bursts <= 16 bits at every 3rd (every) start")],
        level_text="Proof: CRC-16/MODBUS algebra on the bit-serial register (linearity, injectivity on 16-bit values, order of x) "
                   "gives burst_detected (<=16 bits), single_bit_detected, double_bit_detected (frames up to 2100 bits) and the bridge "
                   "crc_trailer_zero_iff; format_crc/format_len_le (emitted frames carry the right CRC, <= 256 bytes); accept_sound (a frame "
                   "is delivered only if its CRC verifies over exactly the span the length rule selects); rtu_chunking_independent (all "
                   "chunkings, both directions); corrupted_frame_crc_mismatch; corruption_rejected_partial (parser level, under the hypothesis "
                   "that the corruption leaves the length rule's result unchanged - a protocol limit, witness byte_count_flip_accepted). "
                   "Tie: production RtuParser/FramedReader and the crc crate run on the same streams.",
        level_note="Partial: corruption theorem requires unchanged delimitation (forced by length-delimited RTU framing). Trusted: Lean kernel; "
                   "bitwise CRC model vs. the crc crate's table implementation (sampled by the crc suite); hand-written parser model; emitted-frame "
                   "bound for client requests relies on C03's request limits.",
        technique="Lean 4 algebraic proof of CRC detection + refinement proof of the RTU reader + differential correspondence incl. exhaustive bit flips",
        classify=classify_rdr, nontrivial=nontrivial_rdr, finding_key=no_key,
        rule="crc suite: random byte strings (1..260 B) + repo vectors; rdr suite: see exhaustive_subdomains + seeded random RTU streams "
             "(valid frames of all 8 functions and exception replies, bit flips, bad CRC, garbage, truncation) under random chunkings; "
             "distinct = distinct case line; non-trivial = at least one frame or error event (crc: every case)",
        assumptions=["serial line delivers bytes in order", "inter-frame timing (t3.5) is not used by the code and not modelled"],
    ),
    "C14": dict(
        audit_modules=["RodbusModel.Audit.C14"],
        required_theorems=["Rodbus.C14.kth_delay", "Rodbus.C14.kth_delay_created", "Rodbus.C14.kth_delay_after_reset",
                           "Rodbus.C14.disconnect_is_min", "Rodbus.C14.no_overflow", "Rodbus.C14.delay_le_max"],
        suites=[dict(gen="retry", n=(4000, 300000),
                     exhaustive="11x11 lattice of special (min,max) durations incl. 0, Duration::MAX, MAX/2, MAX/2+1")],
        level_text="Proof: kth_delay (by induction on the call sequence, for all (min,max) with max representable and all k: the k-th "
                   "consecutive after_failed_connect since creation/reset returns min*2^(k-1) capped at max), disconnect_is_min, "
                   "kth_delay_after_reset, delay_le_max, no_overflow (the saturating doubling never exceeds Duration::MAX). Tie: the public "
                   "doubling_retry_strategy object is run on the same (min,max) and call sequences as the model and as a stateless closed-form "
                   "specification. Task-level part (announced delay = waited delay, reset on connect) is exercised by the lifecycle suite (C13).",
        level_note="Trusted: Lean kernel; hand-written 20-line model of retry.rs tied by differential runs; std::time::Duration arithmetic "
                   "(saturating_mul, min). The use of the strategy by the channel tasks is not proved here (see C13).",
        technique="Lean 4 induction over call sequences + differential run of the public strategy object",
        classify=lambda c, i: ["panic" if "panic" in i else "ok", "len=%d" % min(9, i.count(",") // 10)],
        nontrivial=lambda c, i: i != "-", finding_key=no_key,
        rule="cases = special-value lattice + seeded random (min,max) and op strings over {f,d,r}; distinct = distinct case line; "
             "non-trivial = at least one delay returned",
        assumptions=["durations are modelled as natural numbers of nanoseconds"],
    ),
    "C15": dict(
        audit_modules=["RodbusModel.Audit.C15"],
        required_theorems=["Rodbus.C15.tracker_bound", "Rodbus.C15.evicts_oldest", "Rodbus.C15.remove_absent",
                           "Rodbus.C15.fresh_id"],
        suites=[dict(gen="trk", n=(3000, 200000),
                     exhaustive="all op sequences of length <= 4 (5 thorough) over {add, remove 0, remove 1, remove 2} for max_sessions 0..4")],
        level_text="Proof: tracker_bound (for every add/remove sequence the number of live sessions is <= max(1,max_sessions)), evicts_oldest "
                   "(a full tracker evicts exactly the smallest id = the earliest-added live session, ids strictly increase), remove_absent "
                   "(late removal of an evicted id is a no-op), fresh_id. Tie: the production SessionTracker is driven through the verif hook on "
                   "the same op sequences. The network-level parts (isolation between sessions, shutdown closes all sessions, evicted "
                   "session actually closed) are exercised over loopback by the srvnet suite.",
        level_note="Partial: session isolation and shutdown are runtime behaviour (tokio tasks, sockets); they are exercised, not proved. "
                   "Trusted: Lean kernel, hand-written tracker model tied by differential runs.",
        technique="Lean 4 invariant proof over add/remove sequences + differential run of the production SessionTracker + loopback scenarios",
        classify=lambda c, i: ["max=" + c.split(" ")[1], "evictions" if True else ""],
        nontrivial=lambda c, i: "+" in i, finding_key=no_key,
        rule="cases = exhaustive short sequences + seeded random sequences (max 0,1,2,3,4,8,100); distinct = distinct case line; "
             "non-trivial = at least one add",
        assumptions=["eviction in the real server is asynchronous: the evicted task ends at its next poll"],
    ),
    "C16": dict(
        audit_modules=["RodbusModel.Audit.C16"],
        required_theorems=["Rodbus.C16.matches_spec", "Rodbus.C16.wildcard_parse_iff", "Rodbus.C16.wrong_field_count_rejected",
                           "Rodbus.C16.parsed_fields_are_octets", "Rodbus.C16.splitDots_join"],
        suites=[dict(gen="flt", n=(4000, 300000)),
                dict(gen="fltm", n=(3000, 200000),
                     exhaustive="all 4^4 wildcard patterns over {*,0,127,255} x 5 peers (3^4+1 peers thorough)")],
        level_text="Proof: matches_spec (AddressFilter::matches decides exactly the declarative meaning for every filter and peer; IPv6 never "
                   "matches a wildcard), wildcard_parse_iff (a string parses iff it splits on '.' into exactly four fields each '*' or a numeral "
                   "accepted by u8::from_str, and the result is their meaning), parsed_fields_are_octets, splitDots_join/no_dot. Tie: the Rust "
                   "parser and matcher are run on grammar-aware strings (signs, leading zeros, 255/256, empty fields, non-ASCII digits) and a "
                   "boundary lattice of patterns x peers. Accept-path part (every server variant, Rust API and C ABI) is exercised over loopback.",
        level_note="Reading: numeric fields accept what Rust's u8::from_str accepts (optional '+', leading zeros). Partial: that every server variant "
                   "consults the filter before serving is exercised over loopback / via the C ABI, not proved. Trusted: Lean kernel, hand-written "
                   "model of address_filter.rs and of u8::from_str.",
        technique="Lean 4 iff-characterisation of parser and matcher + differential runs on grammar-aware strings",
        classify=lambda c, i: [i[:3]],
        nontrivial=lambda c, i: i.startswith("ok") or i == "true", finding_key=no_key,
        rule="flt: fixed edge strings + seeded grammar-aware wildcard strings (about half valid); fltm: pattern x peer lattice + random; "
             "distinct = distinct case line; non-trivial = the string parsed / the filter matched",
        assumptions=["IPv6 peers are compared by their canonical text form in the model"],
    ),
}
