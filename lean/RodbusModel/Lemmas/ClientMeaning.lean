import RodbusModel.Lemmas.ClientInv
/-
  What each completion means (C10 `error_meaning`), the response loop (C11, C12) and the timeout
  counter (C12 `counter_exact`).
-/
namespace Rodbus.Client

theorem afterCore_log (c : Core) (m : Nat) (res : Res) :
    ((afterCore c m res).log = c.log ∧ res.sessionEnd = none)
      ∨ ∃ k, (afterCore c m res).log = .fin k c.now :: c.log ∧ (afterCore c m res).pos = .noPhase
          ∧ (res.sessionEnd = some k ∨ (res = .timeout ∧ k = .maxTo c.maxTo)) := by
  unfold afterCore
  split
  · rename_i k hk; exact Or.inr ⟨k, rfl, rfl, Or.inl hk⟩
  · rename_i hk
    split
    · rename_i ht
      split
      · exact Or.inl ⟨rfl, hk⟩
      · split
        · exact Or.inr ⟨_, rfl, rfl, Or.inr ⟨ht, rfl⟩⟩
        · exact Or.inl ⟨rfl, hk⟩
    · exact Or.inl ⟨rfl, hk⟩

theorem afterCore_sessionEnd (c : Core) (m : Nat) (res : Res) (k : EndKind)
    (h : res.sessionEnd = some k) :
    (afterCore c m res).log = .fin k c.now :: c.log ∧ (afterCore c m res).pos = .noPhase := by
  unfold afterCore; rw [h]; exact ⟨rfl, rfl⟩

/-- the completions the task itself produces, with the circumstances -/
inductive NewDone (c c' : Core) : LogEntry → Prop
  | noConn (r : Req) (q : List Cmd) : c.alive = true →
      (c.pos = .waitEnabled ∨ ∃ dl b, c.pos = .failFor dl b) → c.queue = .req r :: q →
      NewDone c c' (doneEntry c r .noConn)
  | dequeue (m : Nat) (r : Req) (q : List Cmd) (res : Res) : c.alive = true → c.pos = .idle m →
      c.queue = .req r :: q →
      ((∃ e, res = .badReq e) ∨ res = .io .pipe ∨ (∃ e, res = frameErrRes e)) →
      (∀ k, res.sessionEnd = some k → c'.pos = .noPhase ∧ LogEntry.fin k c.now ∈ c'.log) →
      NewDone c c' (doneEntry c r res)
  | finish (m : Nat) (r : Req) (tx dl : Nat) (res : Res) : c.alive = true →
      c.pos = .inflight m r tx dl → (res = .timeout → dl ≤ c.now) → res ≠ .noConn →
      res ≠ .shutdown →
      (∀ k, res.sessionEnd = some k → c'.pos = .noPhase ∧ LogEntry.fin k c.now ∈ c'.log) →
      NewDone c c' (doneEntry c r res)

/-- a request that fails when it is taken from the queue fails with a validation error, the failed
    write or a framing error: never with `noconn`, `shutdown` or `timeout` -/
theorem dequeueRes_ne {res : Res}
    (h : (∃ e, res = .badReq e) ∨ res = .io .pipe ∨ (∃ e, res = frameErrRes e)) :
    res ≠ .noConn ∧ res ≠ .shutdown ∧ res ≠ .timeout := by
  rcases h with ⟨e, rfl⟩ | rfl | ⟨e, rfl⟩
  · simp
  · simp
  · exact frameErrRes_ne e

theorem mem_afterCore_log (c : Core) (m : Nat) (res : Res) (e : LogEntry) (he : e.isDone = true)
    (h : e ∈ (afterCore c m res).log) : e ∈ c.log := by
  rcases afterCore_log c m res with ⟨h1, _⟩ | ⟨k, h1, _⟩
  · rw [h1] at h; exact h
  · rw [h1] at h
    simp only [List.mem_cons] at h
    rcases h with rfl | h
    · simp [LogEntry.isDone] at he
    · exact h

/-- every completion in the log after a step of the task was there before, or is one of `NewDone` -/
theorem teff_new_done (c c' : Core) (t : TEff c c') (e : LogEntry) (he : e.isDone = true)
    (h : e ∈ c'.log) : e ∈ c.log ∨ NewDone c c' e := by
  cases t with
  | quiet => exact Or.inl h
  | commit dl ha hp => exact Or.inl h
  | startSession m ha hp => exact Or.inl h
  | startWait ha hp => exact Or.inl h
  | startFail ms ha hp => exact Or.inl h
  | phaseEnd k ha hi hn =>
    simp only [List.mem_cons] at h
    rcases h with rfl | h
    · simp [LogEntry.isDone] at he
    · exact Or.inl h
  | phaseEndCmd k x q ha hi hn hq hx =>
    simp only [List.mem_cons] at h
    rcases h with rfl | h
    · simp [LogEntry.isDone] at he
    · exact Or.inl h
  | setting x q ha hi hn hq hx => exact Or.inl h
  | noConn r q ha hp hq =>
    simp only [List.mem_cons] at h
    rcases h with rfl | h
    · exact Or.inr (NewDone.noConn r q ha hp hq)
    · exact Or.inl h
  | send m r q bytes logged ha hp hq =>
    cases logged
    · exact Or.inl h
    · simp only [if_true, List.mem_cons] at h
      rcases h with rfl | h
      · simp [LogEntry.isDone] at he
      · exact Or.inl h
  | dequeueFail m r q res ha hp hq hres =>
    have := mem_afterCore_log _ m res e he h
    simp only [List.mem_cons] at this
    rcases this with rfl | this
    · refine Or.inr (NewDone.dequeue m r q res ha hp hq hres ?_)
      intro k hk
      obtain ⟨h1, h2⟩ := afterCore_sessionEnd _ m res k hk
      exact ⟨h2, by rw [h1]; simp⟩
    · exact Or.inl this
  | finish m r tx dl res ha hp ht h3 h4 =>
    have := mem_afterCore_log _ m res e he h
    simp only [List.mem_cons] at this
    rcases this with rfl | this
    · refine Or.inr (NewDone.finish m r tx dl res ha hp ht h3 h4 ?_)
      intro k hk
      obtain ⟨h1, h2⟩ := afterCore_sessionEnd _ m res k hk
      exact ⟨h2, by rw [h1]; simp⟩
    · exact Or.inl this
  | time t ht1 ht2 => exact Or.inl h

/-- a script step by itself only completes requests with Shutdown or BadRequest -/
theorem ueff_new_done (c c' : Core) (t : UEff c c') (e : LogEntry) (he : e.isDone = true)
    (h : e ∈ c'.log) :
    e ∈ c.log ∨ ∃ r res, e = doneEntry c r res ∧ (res = .shutdown ∨ ∃ x, res = .badReq x) := by
  cases t with
  | quiet => exact Or.inl h
  | note e' he' =>
    simp only [List.mem_cons] at h
    rcases h with rfl | h
    · rw [he'] at he; cases he
    · exact Or.inl h
  | acceptDone r res extra hex hres =>
    simp only [List.mem_append, List.mem_cons] at h
    rcases h with h | rfl | h
    · rw [hex e h] at he; cases he
    · exact Or.inr ⟨r, res, rfl, hres⟩
    · exact Or.inl h
  | acceptQueue r ha => exact Or.inl h
  | enqueueCmd x ha hx => exact Or.inl h
  | abort ha =>
    simp only [List.mem_append] at h
    rcases h with h | h
    · unfold shutdownEntries at h
      simp only [List.mem_reverse, List.mem_map] at h
      obtain ⟨r, _, rfl⟩ := h
      exact Or.inr ⟨r, .shutdown, rfl, Or.inl rfl⟩
    · exact Or.inl h


/-! ### the timeout counter -/

/-- the outcomes of the consecutive requests of one session, fed to the bookkeeping of
    `run_one_request`; once the session is over nothing more is processed -/
def feed (m : Nat) (c : Core) : List Res → Core
  | [] => c
  | r :: rs => if c.pos = .idle m then feed m (afterCore c m r) rs else c

/-- number of timeouts at the end of a sequence of outcomes -/
def trailing (rs : List Res) : Nat := (rs.reverse.takeWhile (fun r => decide (r = .timeout))).length

theorem trailing_snoc (rs : List Res) (r : Res) :
    trailing (rs ++ [r]) = if r = .timeout then trailing rs + 1 else 0 := by
  unfold trailing
  simp only [List.reverse_append, List.reverse_cons, List.reverse_nil, List.nil_append,
    List.singleton_append, List.takeWhile_cons]
  split <;> simp_all

theorem trailing_nil : trailing [] = 0 := rfl

theorem feed_stuck (m : Nat) (c : Core) (rs : List Res) (h : c.pos ≠ .idle m) : feed m c rs = c := by
  cases rs with
  | nil => rfl
  | cons r rs => simp [feed, h]

theorem feed_snoc (m : Nat) (c : Core) (rs : List Res) (r : Res) :
    feed m c (rs ++ [r])
      = if (feed m c rs).pos = .idle m then afterCore (feed m c rs) m r else feed m c rs := by
  induction rs generalizing c with
  | nil => by_cases h : c.pos = .idle m <;> simp [feed, h]
  | cons a rs ih =>
    simp only [List.cons_append, feed]
    split
    · exact ih _
    · rfl

theorem snoc_induction {α : Type} {P : List α → Prop} (hnil : P [])
    (hsnoc : ∀ l a, P l → P (l ++ [a])) (l : List α) : P l := by
  have : ∀ l : List α, P l.reverse := by
    intro l
    induction l with
    | nil => exact hnil
    | cons a l ih => rw [List.reverse_cons]; exact hsnoc _ a ih
  have h := this l.reverse
  rwa [List.reverse_reverse] at h

/-- after `j` outcomes the last `N` were timeouts, for some `j` -/
def Hit (N : Nat) (rs : List Res) : Prop := ∃ j, j ≤ rs.length ∧ N ≤ trailing (rs.take j)

theorem hit_snoc (N : Nat) (rs : List Res) (r : Res) :
    Hit N (rs ++ [r]) ↔ Hit N rs ∨ N ≤ trailing (rs ++ [r]) := by
  constructor
  · rintro ⟨j, hj, ht⟩
    by_cases hjl : j ≤ rs.length
    · left; exact ⟨j, hjl, by rwa [List.take_append_of_le_length hjl] at ht⟩
    · right
      have : j = (rs ++ [r]).length := by simp at hj ⊢; omega
      rw [this, List.take_length] at ht; exact ht
  · rintro (⟨j, hj, ht⟩ | h)
    · exact ⟨j, by simp; omega, by rwa [List.take_append_of_le_length hj]⟩
    · exact ⟨(rs ++ [r]).length, Nat.le_refl _, by rwa [List.take_length]⟩

theorem afterCore_maxTo (c : Core) (m : Nat) (res : Res) : (afterCore c m res).maxTo = c.maxTo :=
  (afterCore_parts c m res).2.2.2.2.2.2.2.2.2

/-- the state of the counter as a function of the outcomes so far -/
theorem feed_spec (m N : Nat) (hN : 1 ≤ N) (c : Core) (hp : c.pos = .idle m) (hn : c.nto = 0)
    (hm : c.maxTo = N) (rs : List Res) (hrs : ∀ r ∈ rs, r.sessionEnd = none) :
    (Hit N rs → (feed m c rs).pos = .noPhase)
      ∧ (¬ Hit N rs → (feed m c rs).pos = .idle m ∧ (feed m c rs).nto = trailing rs)
      ∧ (feed m c rs).maxTo = N := by
  induction rs using snoc_induction with
  | hnil =>
    refine ⟨?_, ?_, hm⟩
    · rintro ⟨j, hj, ht⟩
      simp at hj; subst hj
      simp [trailing_nil] at ht; omega
    · intro _; exact ⟨hp, by simp [feed, hn, trailing_nil]⟩
  | hsnoc rs r ih =>
    obtain ⟨ih1, ih2, ih3⟩ := ih (fun x hx => hrs x (by simp [hx]))
    have hr : r.sessionEnd = none := hrs r (by simp)
    rw [feed_snoc]
    by_cases hh : Hit N rs
    · -- already over
      have hpos := ih1 hh
      have : (feed m c rs).pos ≠ .idle m := by rw [hpos]; simp
      rw [if_neg this]
      refine ⟨fun _ => hpos, fun hno => absurd ((hit_snoc N rs r).mpr (Or.inl hh)) hno, ih3⟩
    · obtain ⟨hpos, hnto⟩ := ih2 hh
      rw [if_pos hpos]
      have hlt : trailing rs < N := by
        apply Nat.lt_of_not_le
        intro hle
        exact hh ⟨rs.length, Nat.le_refl _, by rwa [List.take_length]⟩
      refine ⟨?_, ?_, by rw [afterCore_maxTo]; exact ih3⟩
      · intro hhit
        rcases (hit_snoc N rs r).mp hhit with h | h
        · exact absurd h hh
        · rw [trailing_snoc] at h
          split at h
          · rename_i hto
            subst hto
            unfold afterCore
            simp only [Res.sessionEnd, if_true, ih3, hnto]
            have h0 : ¬ N = 0 := by omega
            simp [h0, h]
          · omega
      · intro hno
        have hnt : ¬ N ≤ trailing (rs ++ [r]) := fun h => hno ((hit_snoc N rs r).mpr (Or.inr h))
        rw [trailing_snoc] at hnt ⊢
        unfold afterCore
        rw [hr]
        simp only [ih3, hnto]
        split
        · rename_i hto
          rw [if_pos hto] at hnt
          have h0 : ¬ N = 0 := by omega
          have h1 : ¬ (trailing rs + 1 ≥ N) := by omega
          simp [h0, h1]
        · simp

/-- without a limit the session never ends because of timeouts -/
theorem feed_no_limit (m : Nat) (c : Core) (hp : c.pos = .idle m) (hm : c.maxTo = 0)
    (rs : List Res) (hrs : ∀ r ∈ rs, r.sessionEnd = none) : (feed m c rs).pos = .idle m := by
  induction rs generalizing c with
  | nil => exact hp
  | cons r rs ih =>
    simp only [feed, hp, if_true]
    have hr : r.sessionEnd = none := hrs r (by simp)
    apply ih
    · unfold afterCore; rw [hr]; simp only [hm]; split <;> simp
    · rw [afterCore_maxTo]; exact hm
    · intro x hx; exact hrs x (by simp [hx])


/-! ### the response loop -/

theorem txMatches_false_iff (f : Frame) (tx : Nat) :
    txMatches f tx = false ↔ ∃ t, f.tx = some t ∧ t ≠ tx := by
  unfold txMatches
  cases f.tx with
  | none => simp
  | some t => simp

section
variable {σ : Type}

theorem inflightReader_mismatch (s : State σ) (m : Nat) (q : Req) (tx : Nat) (f : Frame)
    (h : txMatches f tx = false) : inflightReader s m q tx (.frame f) = s := by
  simp [inflightReader, h]

theorem idleReader_frame (s : State σ) (f : Frame) : idleReader s (.frame f) = s := rfl

/-- what `tickInflight` does before the deadline, as a function of what the reader delivers -/
theorem tickInflight_before (F : Framing σ) (s s' : State σ) (m : Nat) (q : Req) (tx dl : Nat)
    (r : ReadRes) (hr : pollReader F s m = (r, s')) (hnow : s.now < dl) :
    tickInflight F s m q tx dl =
      match r with
      | .blocked => if !(getMock s m).rx.isEmpty then some s' else none
      | r => some (inflightReader s' m q tx r) := by
  unfold tickInflight
  simp only [hr]
  have : decide (s.now ≥ dl) = false := by simp; omega
  cases r <;> simp [this]

/-- what `tickInflight` does once the deadline has been reached and the reader has nothing -/
theorem tickInflight_expired_blocked (F : Framing σ) (s s' : State σ) (m : Nat) (q : Req)
    (tx dl : Nat) (hr : pollReader F s m = (.blocked, s')) (hnow : dl ≤ s.now) :
    tickInflight F s m q tx dl = some (finish s' m q .timeout) := by
  unfold tickInflight
  simp only [hr]
  have : decide (s.now ≥ dl) = true := by simp; omega
  simp [this]

/-- deadline reached and the reader has something: the coin of `select!` decides -/
theorem tickInflight_expired_ready (F : Framing σ) (s s' : State σ) (m : Nat) (q : Req)
    (tx dl : Nat) (r : ReadRes) (hr : pollReader F s m = (r, s')) (hb : r ≠ .blocked)
    (hnow : dl ≤ s.now) :
    tickInflight F s m q tx dl =
      if (flip s).1 then some (finish (flip s).2 m q .timeout)
      else some (inflightReader { s' with coins := (flip s).2.coins } m q tx r) := by
  unfold tickInflight
  simp only [hr]
  have : decide (s.now ≥ dl) = true := by simp; omega
  cases r with
  | blocked => exact absurd rfl hb
  | frame f => simp [this]
  | fail res => simp [this]

theorem finish_reader (s : State σ) (m : Nat) (q : Req) (res : Res) :
    (finish s m q res).pst = s.pst ∧ (finish s m q res).rb = s.rb
      ∧ (finish s m q res).mocks = s.mocks ∧ (finish s m q res).queue = s.queue := by
  unfold finish afterRequest
  split
  · exact ⟨rfl, rfl, rfl, rfl⟩
  · split
    · split
      · exact ⟨rfl, rfl, rfl, rfl⟩
      · split <;> exact ⟨rfl, rfl, rfl, rfl⟩
    · exact ⟨rfl, rfl, rfl, rfl⟩

/-- after a timeout below the limit the session goes on, on the same transport -/
theorem finish_timeout_pos (s : State σ) (m : Nat) (q : Req)
    (h : s.maxTo = 0 ∨ s.nto + 1 < s.maxTo) : (finish s m q .timeout).pos = .idle m := by
  unfold finish afterRequest
  simp only [Res.sessionEnd, if_true]
  rcases h with h | h
  · have : (complete s q .timeout).maxTo = 0 := h
    simp [this]
  · have h1 : (complete s q .timeout).maxTo = s.maxTo := rfl
    have h2 : (complete s q .timeout).nto = s.nto := rfl
    have h3 : ¬ s.maxTo = 0 := by omega
    have h4 : ¬ (s.nto + 1 ≥ s.maxTo) := by omega
    simp [h1, h2, h3, h4]

/-- the limit is reached: the session ends with `MaxTimeouts` -/
theorem finish_timeout_limit (s : State σ) (m : Nat) (q : Req)
    (h0 : s.maxTo ≠ 0) (h : s.maxTo ≤ s.nto + 1) :
    (finish s m q .timeout).pos = .noPhase
      ∧ (finish s m q .timeout).log
          = .fin (.maxTo s.maxTo) s.now :: .done q.rid q.style .timeout s.now :: s.log := by
  unfold finish afterRequest
  simp only [Res.sessionEnd, if_true]
  have h4 : s.nto + 1 ≥ s.maxTo := h
  simp [h0, h4, endPhase, emit, complete]

end

/-- the deadline of the request in flight was fixed when it was written
    (write time + its timeout) and never changes -/
theorem teff_deadline (c c' : Core) (t : TEff c c') (m : Nat) (r : Req) (tx dl : Nat)
    (h : c'.pos = .inflight m r tx dl) :
    c.pos = .inflight m r tx dl ∨ (c.pos = .idle m ∧ dl = c.now + r.timeout ∧ tx = c.tx
      ∧ ∃ bytes, c'.sent = (r.rid, tx, bytes) :: c.sent) := by
  cases t with
  | quiet => exact Or.inl h
  | commit dl' ha hp => cases h
  | startSession m' ha hp => cases h
  | startWait ha hp => cases h
  | startFail ms ha hp => cases h
  | phaseEnd k ha hi hn => cases h
  | phaseEndCmd k x q ha hi hn hq hx => cases h
  | setting x q ha hi hn hq hx => exact Or.inl h
  | noConn r' q ha hp hq => exact Or.inl h
  | send m' r' q bytes logged ha hp hq =>
    simp only [Pos.inflight.injEq] at h
    obtain ⟨rfl, rfl, rfl, rfl⟩ := h
    exact Or.inr ⟨hp, rfl, rfl, bytes, rfl⟩
  | dequeueFail m' r' q res ha hp hq hres => exact absurd h (afterCore_not_inflight _ _ _ _ _ _ _)
  | finish m' r' tx' dl' res ha hp ht h3 h4 => exact absurd h (afterCore_not_inflight _ _ _ _ _ _ _)
  | time t ht1 ht2 => exact Or.inl h

end Rodbus.Client
