import RodbusModel.Props.C05Cancel
import RodbusModel.Props.C01Write
import RodbusModel.Props.C07
import RodbusModel.Props.C03
import RodbusModel.Props.C04
#print axioms Rodbus.C07.range_addresses_fit
#print axioms Rodbus.C07.last_address_may_be_max
#print axioms Rodbus.C07.indexed_indices
#print axioms Rodbus.C07.indexed_indices_fit
#print axioms Rodbus.C07.mbap_length_field_fits
#print axioms Rodbus.C07.byte_counts_fit
#print axioms Rodbus.C07.read_buffer_indices_in_bounds
#print axioms Rodbus.C07.reply_fits_writer
#print axioms Rodbus.C07.reader_errors_are_protocol_errors
#print axioms Rodbus.C07.handleEvents_ended
#print axioms Rodbus.C07.session_outcome
#print axioms Rodbus.C07.shutdown_honoured
#print axioms Rodbus.no_spurious_eof
#print axioms Rodbus.no_internal_error
#print axioms Rodbus.read_has_space
#print axioms Rodbus.C06.no_spurious_eof
#print axioms Rodbus.C06.no_internal_short_read
#print axioms Rodbus.C06.peek_in_bounds
#print axioms Rodbus.C06.parse_no_internal_error
#print axioms Rodbus.C01.reply_pdu_len
#print axioms Rodbus.C01.read_byte_count_fits
#print axioms Rodbus.C02.decoded_request_in_limits
#print axioms Rodbus.C04.returned_indices
#print axioms Rodbus.C04.trichotomy
#print axioms Rodbus.C03.encode_len
#print axioms Rodbus.C01W.write_failure_ends_session
#print axioms Rodbus.C01W.write_failure_unreached
#print axioms Rodbus.C01W.write_failure_session
#print axioms Rodbus.Cancel.session_cancel_safe_with_write_fault
