import RodbusModel.Props.C03
import RodbusModel.Props.C06
import RodbusModel.Props.C11
import RodbusModel.Lemmas.ClientLogRun
/-
  C03 / C06 at the level of a RUN of the client task (Props/C03 and Props/C06 §1 are about the
  helpers `encodeRequest`, `Mbap.format`, `Rtu.format`; Props/C11 `sent_frame` is one step).

  For every framing, queue capacity, timeout limit, decode level, resolution `coins` of the
  `select!` polling order and every script `steps`, in the state
  `s = runState F (State.init F cap maxTo d coins) steps`:

  * `sent_is_encoding`: every entry `(rid, tx, bytes)` of `s.sent` (the history of everything the
    task wrote to a transport) is `F.format tx r.unit pdu` for a request `r` that the script
    submitted, with `r.rid = rid`, whose `encodeRequest` succeeded with `pdu` = the protocol
    encoding `Spec.Client.pdu r.req`; the request is `ClientValid` when its scalar arguments are
    u16 values (which the Rust types guarantee; the model's fields are `Nat`);
  * `mbap_sent_frames` / `rtu_sent_frames`: hence at most 260 / 256 bytes, the MBAP / RTU encoding
    `adu`, and for RTU address, PDU, CRC-16 low byte first (no hypothesis on the arguments);
  * `tx_log_is_sent`: every `.tx b` entry of the log is the frame of an entry of `sent`
    (the converse holds exactly for the writes to the newest transport: `startRequest_emission`);
  * `startRequest_emission`: taking a request from the queue writes exactly one frame or nothing;
    `invalid_never_sent`: a request whose `encodeRequest` fails never gets a `sent` / `.tx` entry,
    it is completed with the bad-request error instead (`invalid_completes_badReq`).
-/
namespace Rodbus.Client
open Rodbus.Spec.Client

/-- a request that is not rejected has a PDU of at most 253 bytes (no u16 hypothesis: the length
    only depends on the number of values) -/
theorem pdu_length_le_of_accepted (req : ClientReq) (h : rejection req = none) :
    (pdu req).length ≤ 253 := by
  cases req <;>
    simp only [rejection, pdu, List.length_cons, List.length_nil, List.length_append,
      ClientPdu.coilBytes_length, ClientPdu.regBytes_length] at * <;>
    (repeat' split at h) <;> (try simp at h) <;> omega

/-- a successfully encoded request has a PDU of at most 253 bytes, whatever its arguments -/
theorem encode_len_le {req : ClientReq} {bytes : Bytes} (h : encodeRequest req = .ok bytes) :
    bytes.length ≤ 253 := by
  obtain ⟨h1, h2⟩ := ClientPdu.encode_ok_spec h
  rw [h2]; exact pdu_length_le_of_accepted req h1

/-! ## 1. everything that was written is the encoding of a submitted, valid request -/

/-- `sent_is_encoding` (the emission invariant over every reachable state). -/
theorem sent_is_encoding {σ : Type} (F : Framing σ) (cap maxTo : Nat) (d : Decode)
    (coins : List Bool) (steps : List Step) (s : State σ)
    (hs : s = runState F (State.init F cap maxTo d coins) steps) :
    ∀ rid tx bytes, (rid, tx, bytes) ∈ s.sent →
      ∃ r pdu, r ∈ scriptReqs steps ∧ r.rid = rid ∧ encodeRequest r.req = .ok pdu
        ∧ pdu = Spec.Client.pdu r.req ∧ pdu.length ≤ 253
        ∧ (r.req.FieldsU16 → ClientValid r.req)
        ∧ bytes = F.format tx r.unit pdu := by
  subst hs
  intro rid tx bytes hm
  have hQ : ∀ st ∈ steps, StepQ (fun r => r ∈ scriptReqs steps) st := by
    intro st hst
    cases st <;> simp only [StepQ]
    exact mem_scriptReqs.mpr ⟨_, _, hst⟩
  obtain ⟨_, h2, _, _⟩ := reachable_logOk (resOk_true F) cap maxTo d coins steps hQ
  obtain ⟨r, pdu, hr, hrid, henc, hb⟩ := h2 _ hm
  exact ⟨r, pdu, hr, hrid, henc, C03.encode_eq_spec henc, encode_len_le henc,
    fun hf => C03.encode_ok_valid hf henc, hb⟩

/-- the same in the form "valid request, its encoding, its frame", for a script whose requests
    have u16 arguments -/
theorem sent_is_valid_encoding {σ : Type} (F : Framing σ) (cap maxTo : Nat) (d : Decode)
    (coins : List Bool) (steps : List Step) (hu : ∀ r ∈ scriptReqs steps, r.req.FieldsU16)
    (s : State σ) (hs : s = runState F (State.init F cap maxTo d coins) steps) :
    ∀ rid tx bytes, (rid, tx, bytes) ∈ s.sent →
      ∃ (r : Req) (pdu : Bytes), encodeRequest r.req = .ok pdu ∧ ClientValid r.req
        ∧ bytes = F.format tx r.unit pdu := by
  intro rid tx bytes hm
  obtain ⟨r, pdu, hr, _, henc, _, _, hv, hb⟩ :=
    sent_is_encoding F cap maxTo d coins steps s hs rid tx bytes hm
  exact ⟨r, pdu, henc, hv (hu r hr), hb⟩

/-- TCP / TLS: every frame the task ever wrote has at most 260 bytes and is the MBAP encoding
    (tx id, protocol id 0, length, unit id, PDU) of a submitted request -/
theorem mbap_sent_frames (cap maxTo : Nat) (d : Decode) (coins : List Bool) (steps : List Step)
    (s : State Mbap.PState) (hs : s = runState mbap (State.init mbap cap maxTo d coins) steps) :
    ∀ rid tx bytes, (rid, tx, bytes) ∈ s.sent →
      bytes.length ≤ 260
        ∧ ∃ r, r ∈ scriptReqs steps ∧ r.rid = rid ∧ bytes = adu false tx r.unit r.req := by
  intro rid tx bytes hm
  obtain ⟨r, pdu, hr, hrid, henc, _, hlen, _, hb⟩ :=
    sent_is_encoding mbap cap maxTo d coins steps s hs rid tx bytes hm
  have hb' : bytes = Mbap.format tx r.unit pdu := hb
  refine ⟨?_, r, hr, hrid, ?_⟩
  · rw [hb', Mbap.format_length]; omega
  · rw [hb']; exact C03.mbap_frame_eq_spec tx r.unit henc

/-- serial: every frame the task ever wrote has at most 256 bytes, is address, PDU and the
    CRC-16/MODBUS of address and PDU (low byte first), and is the RTU encoding of a submitted
    request -/
theorem rtu_sent_frames (cap maxTo : Nat) (d : Decode) (coins : List Bool) (steps : List Step)
    (s : State Rtu.PState) (hs : s = runState rtu (State.init rtu cap maxTo d coins) steps) :
    ∀ rid tx bytes, (rid, tx, bytes) ∈ s.sent →
      bytes.length ≤ 256
        ∧ ∃ r pdu, r ∈ scriptReqs steps ∧ r.rid = rid ∧ encodeRequest r.req = .ok pdu
            ∧ bytes = r.unit :: pdu ++ u16le (Crc.crc (r.unit :: pdu))
            ∧ bytes = adu true tx r.unit r.req := by
  intro rid tx bytes hm
  obtain ⟨r, pdu, hr, hrid, henc, _, hlen, _, hb⟩ :=
    sent_is_encoding rtu cap maxTo d coins steps s hs rid tx bytes hm
  have hb' : bytes = Rtu.format r.unit pdu := hb
  refine ⟨?_, r, pdu, hr, hrid, henc, ?_, ?_⟩
  · rw [hb']; exact C06.format_len_le r.unit pdu hlen
  · rw [hb']; exact C06.format_crc r.unit pdu
  · rw [hb']; exact C03.rtu_frame_eq_spec tx r.unit henc

/-! ## 2. what the log shows as transmitted is what was written -/

/-- every `.tx b` entry of the log is the frame of an entry of `sent` -/
theorem tx_log_is_sent {σ : Type} (F : Framing σ) (cap maxTo : Nat) (d : Decode)
    (coins : List Bool) (steps : List Step) (s : State σ)
    (hs : s = runState F (State.init F cap maxTo d coins) steps) :
    ∀ b, LogEntry.tx b ∈ s.log → ∃ rid tx, (rid, tx, b) ∈ s.sent := by
  subst hs
  intro b hb
  obtain ⟨_, _, h3, _⟩ := reachable_logOk (Q := fun _ => True) (resOk_true F) cap maxTo d coins
    steps (fun st _ => by cases st <;> trivial)
  exact h3 b (mem_txLog.mpr hb)

/-- … hence every transmission the log shows is the encoding of a submitted request, of at most
    260 bytes on TCP -/
theorem mbap_tx_log_frames (cap maxTo : Nat) (d : Decode) (coins : List Bool) (steps : List Step)
    (s : State Mbap.PState) (hs : s = runState mbap (State.init mbap cap maxTo d coins) steps) :
    ∀ b, LogEntry.tx b ∈ s.log →
      b.length ≤ 260 ∧ ∃ r tx, r ∈ scriptReqs steps ∧ b = adu false tx r.unit r.req := by
  intro b hb
  obtain ⟨rid, tx, hm⟩ := tx_log_is_sent mbap cap maxTo d coins steps s hs b hb
  obtain ⟨hl, r, hr, _, he⟩ := mbap_sent_frames cap maxTo d coins steps s hs rid tx b hm
  exact ⟨hl, r, tx, hr, he⟩

/-- … of at most 256 bytes with the correct CRC on a serial line -/
theorem rtu_tx_log_frames (cap maxTo : Nat) (d : Decode) (coins : List Bool) (steps : List Step)
    (s : State Rtu.PState) (hs : s = runState rtu (State.init rtu cap maxTo d coins) steps) :
    ∀ b, LogEntry.tx b ∈ s.log →
      b.length ≤ 256 ∧ ∃ r pdu, r ∈ scriptReqs steps ∧ encodeRequest r.req = .ok pdu
        ∧ b = r.unit :: pdu ++ u16le (Crc.crc (r.unit :: pdu)) := by
  intro b hb
  obtain ⟨rid, tx, hm⟩ := tx_log_is_sent rtu cap maxTo d coins steps s hs b hb
  obtain ⟨hl, r, pdu, hr, _, henc, he, _⟩ := rtu_sent_frames cap maxTo d coins steps s hs rid tx b hm
  exact ⟨hl, r, pdu, hr, henc, he⟩

/-! ## 3. exactly one frame or nothing -/

section
variable {σ : Type}

theorem finish_emission (s : State σ) (m : Nat) (r : Req) (res : Res) :
    (finish s m r res).sent = s.sent ∧ txLog (finish s m r res).log = txLog s.log
      ∧ LogEntry.done r.rid r.style res s.now ∈ (finish s m r res).log
      ∧ ∀ m' r' tx dl, (finish s m r res).pos ≠ .inflight m' r' tx dl := by
  refine ⟨sent_frame.finish_sent s m r res, ?_, ?_, fun m' r' tx dl =>
    finish_pos_not_inflight s m r res m' r' tx dl⟩
  · unfold finish afterRequest
    split
    · rfl
    · split
      · split
        · rfl
        · split <;> rfl
      · rfl
  · unfold finish afterRequest
    split
    · simp [endPhase, emit, complete]
    · split
      · split
        · simp [emit, complete]
        · split <;> simp [endPhase, emit, complete]
      · simp [emit, complete]

/-- `startRequest_emission` ("exactly one frame or nothing").  When the task takes request `r`
    from the queue, either
    * `encodeRequest` fails: nothing is written or logged as transmitted, the request is completed
      with that bad-request error and does not become the request in flight; or
    * it succeeds with `pdu` and either nothing is written (malformed bytes were buffered, or the
      write failed: the request completes with that error), or exactly the one frame
      `F.format (drawn tx id) unit pdu` is appended to `sent`, logged as `.tx` iff the transport is
      the newest one, and the request is in flight. -/
theorem startRequest_emission (F : Framing σ) (s : State σ) (m : Nat) (r : Req) :
    let t := startRequest F s m r
    (∃ e, encodeRequest r.req = .error e ∧ t.sent = s.sent ∧ txLog t.log = txLog s.log
        ∧ LogEntry.done r.rid r.style (.badReq e) s.now ∈ t.log
        ∧ ∀ m' r' tx dl, t.pos ≠ .inflight m' r' tx dl)
    ∨ (∃ pdu, encodeRequest r.req = .ok pdu ∧
        ((t.sent = s.sent ∧ txLog t.log = txLog s.log
            ∧ (∃ res, LogEntry.done r.rid r.style res s.now ∈ t.log)
            ∧ ∀ m' r' tx dl, t.pos ≠ .inflight m' r' tx dl)
          ∨ (t.sent = (r.rid, s.tx, F.format s.tx r.unit pdu) :: s.sent
              ∧ t.log = (if isLatest s m then .tx (F.format s.tx r.unit pdu) :: s.log else s.log)
              ∧ t.pos = .inflight m r s.tx (s.now + r.timeout)))) := by
  intro t
  show _ ∨ _
  unfold t startRequest
  simp only []
  split
  · rename_i e he
    left
    refine ⟨e, he, ?_⟩
    exact finish_emission _ m r (.badReq e)
  · rename_i pdu hp
    right
    refine ⟨pdu, hp, ?_⟩
    split
    · rename_i res st' rb' hd
      left
      have := finish_emission { s with tx := nextTx s.tx, dequeued := (r.rid, s.tx) :: s.dequeued, pst := st', rb := rb' } m r res
      exact ⟨this.1, this.2.1, ⟨res, this.2.2.1⟩, this.2.2.2⟩
    · rename_i st' rb' hd
      split
      · left
        have := finish_emission (setMock { s with tx := nextTx s.tx, dequeued := (r.rid, s.tx) :: s.dequeued, pst := st', rb := rb' } m { getMock { s with tx := nextTx s.tx, dequeued := (r.rid, s.tx) :: s.dequeued, pst := st', rb := rb' } m with wErr := false }) m r (.io .pipe)
        exact ⟨this.1, this.2.1, ⟨_, this.2.2.1⟩, this.2.2.2⟩
      · right
        have hl : isLatest { s with tx := nextTx s.tx, dequeued := (r.rid, s.tx) :: s.dequeued, pst := st', rb := rb', sent := (r.rid, s.tx, F.format s.tx r.unit pdu) :: s.sent } m = isLatest s m := rfl
        rw [hl]
        cases isLatest s m
        · exact ⟨rfl, rfl, rfl⟩
        · exact ⟨rfl, rfl, rfl⟩

/-- a request whose encoding fails completes with the bad-request error at the moment it is taken
    from the queue -/
theorem invalid_completes_badReq (F : Framing σ) (s : State σ) (m : Nat) (r : Req) (e : ReqErr)
    (he : encodeRequest r.req = .error e) :
    (startRequest F s m r).sent = s.sent
      ∧ (∀ b, LogEntry.tx b ∈ (startRequest F s m r).log → LogEntry.tx b ∈ s.log)
      ∧ LogEntry.done r.rid r.style (.badReq e) s.now ∈ (startRequest F s m r).log := by
  rcases startRequest_emission F s m r with ⟨e', he', h1, h2, h3, _⟩ | ⟨pdu, hp, _⟩
  · rw [he] at he'; cases he'
    refine ⟨h1, ?_, h3⟩
    intro b hb
    exact mem_txLog.mp (h2 ▸ mem_txLog.mpr hb)
  · rw [he] at hp; cases hp

end

theorem nodup_map_inj1 {α β : Type} {f : α → β} {l : List α} (h : (l.map f).Nodup) {a b : α}
    (ha : a ∈ l) (hb : b ∈ l) (hf : f a = f b) : a = b := by
  induction l with
  | nil => cases ha
  | cons x xs ih =>
    simp only [List.map_cons, List.nodup_cons, List.mem_map, not_exists, not_and] at h
    simp only [List.mem_cons] at ha hb
    rcases ha with rfl | ha <;> rcases hb with rfl | hb
    · rfl
    · exact absurd hf.symm (h.1 b hb)
    · exact absurd hf (h.1 a ha)
    · exact ih h.2 ha hb

/-- `invalid_never_sent`.  In a script with distinct request ids, a submitted request whose
    `encodeRequest` fails has no entry in `sent` in any reachable state: nothing was ever written
    for it. -/
theorem invalid_never_sent {σ : Type} (F : Framing σ) (cap maxTo : Nat) (d : Decode)
    (coins : List Bool) (steps : List Step) (hnd : (scriptRids steps).Nodup) (s : State σ)
    (hs : s = runState F (State.init F cap maxTo d coins) steps) (r : Req)
    (hr : r ∈ scriptReqs steps) (e : ReqErr) (he : encodeRequest r.req = .error e) :
    ∀ x ∈ s.sent, x.1 ≠ r.rid := by
  intro x hx hrid
  obtain ⟨rid, tx, bytes⟩ := x
  obtain ⟨r', pdu, hr', hrid', henc, _⟩ :=
    sent_is_encoding F cap maxTo d coins steps s hs rid tx bytes hx
  have heq : r' = r := by
    rw [scriptRids_eq_map] at hnd
    exact nodup_map_inj1 hnd hr' hr (by rw [hrid']; exact hrid)
  subst heq
  rw [he] at henc; cases henc

/-! ## 4. non-vacuity -/

namespace Example

/-- a valid request is written once, with the MBAP encoding, and logged as transmitted -/
example :
    let s := runState mbap s16 [.newSession, .submit .R 0 (rc "a" .future 1000)]
    s.sent = [("a", 0, [0, 0, 0, 0, 0, 6, 1, 1, 0, 0, 0, 8])]
      ∧ s.log = [.tx [0, 0, 0, 0, 0, 6, 1, 1, 0, 0, 0, 8]] := by decide

/-- a write-multiple request beyond the protocol limit passes the public constructors
    (`WriteMultiple::from` only checks the u16 count and the address range) and is queued; when
    the task takes it, `encodeRequest` fails: nothing is written, the request completes with the
    bad-request error, and the tx id drawn for it is used up -/
example :
    let s := runState mbap s16
      [.newSession, .submit .R 0 ⟨"w", .future, 1, 1000, .writeMultipleRegisters 0 (List.replicate 124 0)⟩,
       .submit .R 0 (rc "a" .future 1000)]
    s.sent.map (fun x => (x.1, x.2.1)) = [("a", 1)]
      ∧ s.log = [.tx [0, 1, 0, 0, 0, 6, 1, 1, 0, 0, 0, 8],
                 .done "w" .future (.badReq .countTooBigForType) 0] := by decide +kernel

/-- the same on a serial line: the frame carries the CRC -/
example :
    (runState rtu (State.init rtu 16 0 ⟨0, 0, 0⟩ [])
      [.newSession, .submit .R 0 (rc "a" .future 1000)]).sent
      = [("a", 0, [1, 1, 0, 0, 0, 8, 0x3D, 0xCC])] := by decide +kernel

/-- a frame written to a transport that is not the newest one is in `sent` but not in the log -/
example :
    let s := runState mbap s16 [.newSession, .newSession, .submit .R 0 (rc "a" .future 1000)]
    s.sent.length = 1 ∧ s.log = [] := by decide

end Example

end Rodbus.Client
