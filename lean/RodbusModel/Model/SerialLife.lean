import RodbusModel.Model.Retry
/-
  M8s: the life cycle of the serial client channel task,
  `SerialChannelTask::{run, run_inner, try_open_and_run}` (serial/client.rs), together with the
  command handling of `ClientLoop::{wait_for_enabled, fail_requests_for, run}` as far as it
  decides where the task goes next (requests are not modelled here: they never change the path).

      run:        update(Disabled); run_inner; update(Shutdown)
      run_inner:  loop { wait_for_enabled?; try_open_and_run?; if !is_enabled { update(Disabled) } }
      try_open_and_run:
        serial::open fails  -> d = retry.after_failed_connect(); update(Wait(d)); fail_requests_for(d)
        serial::open ok     -> retry.reset(); update(Open); client_loop.run(phys):
                                 Shutdown -> leave; Disabled -> Ok(());
                                 IoError | BadFrame | MaxTimeouts ->
                                   d = retry.after_disconnect(); update(Wait(d)); fail_requests_for(d)

  The task is driven by events of its environment: the device path appears / disappears (which
  decides the outcome of the next `serial::open`), the user enables / disables / shuts down, an
  open port is lost.  Between two events the task is blocked in one of four places (`Phase`).
  A pending wait elapses when the environment says so (events `absent` / `present` while the task
  is in `fail_requests_for`: "the delay elapses, and the path is absent / present at that moment").
-/
namespace Rodbus.SerialLife

/-- `PortState` -/
inductive PortState
  | disabled | wait (d : Nat) | open_ | shutdown
deriving DecidableEq, Repr

/-- events of the environment -/
inductive Ev
  /-- `f`: the device path does not exist (from now on); a pending wait elapses, i.e. if the task
      is waiting its next open attempt happens now (and fails) -/
  | absent
  /-- `o`: the device path exists (from now on); a pending wait elapses, i.e. if the task is
      waiting its next open attempt happens now (and succeeds) -/
  | present
  /-- `x`: the device disappears: the path is removed and an open port fails (EOF / I/O error) -/
  | lost
  /-- `E` / `D` / `S`: the user's handle -/
  | enable | disable | shutdown
  /-- `X`: every `Channel` handle is dropped: the command queue is closed, `rx.recv()` returns
      `None` wherever the task waits for a command (`wait_for_enabled`, `fail_requests_for`,
      `ClientLoop::poll`): `Shutdown`, exactly like the command -/
  | dropAll
  /-- `~<ms>`: time passes, nothing else -/
  | pause
deriving DecidableEq, Repr

/-- where the task is blocked between two events -/
inductive Phase
  /-- `wait_for_enabled`: the channel is disabled, the task waits for a command -/
  | idle
  /-- `fail_requests_for(delay)` after `Wait(delay)` was announced -/
  | waiting
  /-- `client_loop.run(&mut phys)`: the port is open -/
  | session
  /-- `run` has returned -/
  | finished
deriving DecidableEq, Repr

structure S where
  /-- `ClientLoop::enabled` -/
  enabled : Bool := false
  /-- `SerialChannelTask::retry` -/
  retry : Retry.Doubling
  /-- the device path exists: `serial::open` would succeed -/
  present : Bool := false
  phase : Phase := .idle
deriving DecidableEq, Repr

/-- the port is open exactly while the session runs -/
def S.portOpen (s : S) : Bool := s.phase == .session

/-- `try_open_and_run` up to the point where the task blocks -/
def tryOpen (s : S) : S × List PortState :=
  if s.present then
    -- Ok(serial): `retry.reset()`, `update(Open)`, `client_loop.run`
    ({ s with retry := Retry.reset s.retry, phase := .session }, [.open_])
  else
    -- Err(_): `retry.after_failed_connect()`, `update(Wait(delay))`, `fail_requests_for(delay)`
    ({ s with retry := (Retry.afterFailedConnect s.retry).2, phase := .waiting },
     [.wait (Retry.afterFailedConnect s.retry).1])

/-- top of the loop of `run_inner`: `wait_for_enabled` returns at once if the channel is enabled,
    otherwise the task blocks there; only then `try_open_and_run` -/
def loopTop (s : S) : S × List PortState :=
  if s.enabled then tryOpen s else ({ s with phase := .idle }, [])

/-- the loop is left (`Shutdown` command or every handle dropped): `run` announces `Shutdown` -/
def finish (s : S) : S × List PortState := ({ s with phase := .finished }, [.shutdown])

/-- a `Disable` command ended the wait or the session (`StateChange::Disable` /
    `SessionError::Disabled`): `if !is_enabled { update(Disabled) }`, back to the top of the loop -/
def disabledNow (s : S) : S × List PortState :=
  let r := loopTop { s with enabled := false }
  (r.1, .disabled :: r.2)

/-- one event: the new state and what the listener is told -/
def step (s : S) (e : Ev) : S × List PortState :=
  match s.phase with
  | .finished => (s, [])
  | .idle =>
    match e with
    -- `Setting::Enable`: `wait_for_enabled` returns
    | .enable => loopTop { s with enabled := true }
    | .shutdown | .dropAll => finish s
    | .absent | .lost => ({ s with present := false }, [])
    | .present => ({ s with present := true }, [])
    -- `Setting::Disable` while disabled: `wait_for_enabled` keeps waiting
    | .disable | .pause => (s, [])
  | .waiting =>
    match e with
    -- the delay elapses: `fail_requests_for` returns Ok(()), next round of the loop
    | .absent => loopTop { s with present := false }
    | .present => loopTop { s with present := true }
    | .lost => ({ s with present := false }, [])
    | .disable => disabledNow s
    | .shutdown | .dropAll => finish s
    | .enable | .pause => (s, [])
  | .session =>
    match e with
    -- `SessionError::IoError`: `drop(phys)`, `retry.after_disconnect()`, `update(Wait(delay))`
    | .lost =>
      ({ s with present := false, phase := .waiting }, [.wait (Retry.afterDisconnect s.retry)])
    -- the open descriptor is not affected by what happens to the path
    | .absent => ({ s with present := false }, [])
    | .present => ({ s with present := true }, [])
    | .disable => disabledNow s
    | .shutdown | .dropAll => finish s
    | .enable | .pause => (s, [])

/-- the state after a script -/
def after (s : S) (es : List Ev) : S := es.foldl (fun s e => (step s e).1) s

/-- everything announced during a script -/
def outputs : S → List Ev → List PortState
  | _, [] => []
  | s, e :: es => (step s e).2 ++ outputs (step s e).1 es

def init (mn mx : Nat) : S := { retry := Retry.create mn mx }

/-- `SerialChannelTask::run`: `Disabled` first; the environment ends every script with a shutdown
    request (if the task is still running) -/
def run (mn mx : Nat) (script : List Ev) : List PortState :=
  .disabled :: outputs (init mn mx) (script ++ [.shutdown])

end Rodbus.SerialLife
