import RodbusModel.Model.Ffi
/-
  Reference specifications for the C ABI, written in a deliberately different style from
  `Model/Ffi.lean`: the point database as a total function `Table → Index → Option Value`,
  client reads answered directly from that function (no PDUs), names produced by a naming rule.
-/
namespace Rodbus.Ffi.Spec
open Rodbus.Ffi

/-- the abstract point database: one partial map per point type -/
abbrev AMap := Table → Nat → Option Nat

def AMap.empty : AMap := fun _ _ => none

def AMap.set (m : AMap) (t : Table) (i : Nat) (v : Option Nat) : AMap :=
  fun t' i' => if t' = t ∧ i' = i then v else m t' i'

/-- add succeeds iff absent, update and delete iff present, get fails iff absent -/
def AMap.step (m : AMap) : DbOp → AMap × DbRes
  | .add t i v => if (m t i).isNone then (m.set t i (some v), .flag true) else (m, .flag false)
  | .update t i v => if (m t i).isSome then (m.set t i (some v), .flag true) else (m, .flag false)
  | .delete t i => if (m t i).isSome then (m.set t i none, .flag true) else (m, .flag false)
  | .get t i => match m t i with
    | some v => (m, .val v)
    | none => (m, .err)

def AMap.run (m : AMap) : List DbOp → AMap × List DbRes
  | [] => (m, [])
  | op :: ops =>
    let r := m.step op
    let rs := AMap.run r.1 ops
    (rs.1, r.2 :: rs.2)

/-- a client read of `count` points from `start`: exception 02 as soon as one point of the
    range is absent, otherwise all the values -/
def AMap.read (m : AMap) (t : Table) (start count : Nat) : RdOut :=
  if (List.range count).all (fun k => (m t (start + k)).isSome) then
    .ok ((List.range count).map (fun k => (m t (start + k)).getD 0))
  else .error 2

/-- names of the standard exception codes by number (Modbus application protocol, table of
    exception codes) -/
def exceptionNames : List (Nat × String) :=
  [(1, "IllegalFunction"), (2, "IllegalDataAddress"), (3, "IllegalDataValue"),
   (4, "ServerDeviceFailure"), (5, "Acknowledge"), (6, "ServerDeviceBusy"),
   (8, "MemoryParityError"), (10, "GatewayPathUnavailable"),
   (11, "GatewayTargetDeviceFailedToRespond")]

/-- the C-ABI error named after exception byte `b` -/
def exceptionErrorName (b : Nat) : String :=
  "ModbusException" ++ ((exceptionNames.lookup b).getD "Unknown")

/-- the C-ABI error named after a `rodbus::RequestError` variant: the same name; the schema
    spells three of them slightly differently -/
def requestErrorName (rustVariant : String) : String :=
  if rustVariant = "Io" then "IoError"
  else if rustVariant = "BadFrame" then "BadFraming"
  else if rustVariant = "Internal" then "InternalError"
  else rustVariant

end Rodbus.Ffi.Spec
