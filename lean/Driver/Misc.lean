import RodbusModel.Model.Codec
import RodbusModel.Model.Crc
import RodbusModel.Model.Retry
import RodbusModel.Model.Tracker
import RodbusModel.Model.Filter
/-
  small suites: `range`, `crc`
-/
namespace Rodbus.Driver

/-- specification of `AddressRange::try_from`, stated directly -/
def specRange (s c : Nat) : String :=
  if c = 0 then "err zero" else if s + c > 65536 then "err overflow" else s!"ok {s}+{c}"

def runRange (tok : List String) : String × String :=
  match tok with
  | [_, s, c] =>
    let s := s.toNat?.getD 0
    let c := c.toNat?.getD 0
    (match Range.tryFrom s c with
      | .ok r => s!"ok {r.start}+{r.count}"
      | .error .countOfZero => "err zero"
      | .error .addressOverflow => "err overflow"
      | .error .countTooLargeForType => "err toolarge",
     specRange s c)
  | _ => ("bad-case", "bad-case")

def runCrc (tok : List String) : String × String :=
  match tok with
  | [_, h] =>
    let v := toString (Crc.crc ((ofHex h).getD []))
    (v, v)
  | _ => ("bad-case", "bad-case")

/-! ### retry -/

def durNs (tok : String) : Nat :=
  match tok.splitOn ":" with
  | [s, n] => s.toNat?.getD 0 * 1000000000 + n.toNat?.getD 0
  | _ => 0

/-- specification: the k-th consecutive failure after a reset waits `min (min·2^(k-1)) max`
    (computed from the position in the call sequence, no state) -/
def specRetry (mn mx : Nat) (ops : List Char) : List Nat :=
  let rec go (k : Nat) : List Char → List Nat
    | [] => []
    | 'f' :: r => Nat.min (mn * 2 ^ k) mx :: go (k + 1) r
    | 'd' :: r => mn :: go k r
    | 'r' :: r => go 0 r
    | _ :: r => go k r
  go 0 ops

def runRetry (tok : List String) : String × String :=
  match tok with
  | [_, mn, mx, ops] =>
    let mn := durNs mn
    let mx := durNs mx
    let mops := ops.toList.filterMap fun c =>
      if c = 'f' then some Retry.Op.failed else if c = 'd' then some .disconnect
      else if c = 'r' then some .reset else none
    let show_ (l : List Nat) := if l.isEmpty then "-" else ",".intercalate (l.map toString)
    (show_ (Retry.run (Retry.create mn mx) mops), show_ (specRetry mn mx ops.toList))
  | _ => ("bad-case", "bad-case")

/-! ### trk -/

def runTrk (tok : List String) : String × String :=
  match tok with
  | [_, m, ops] =>
    let ops := if ops = "-" then [] else ops.splitOn ","
    let idsStr (l : List Nat) := "[" ++ " ".intercalate (l.map toString) ++ "]"
    let (_, out) := ops.foldl (fun (acc : Tracker.Tracker × String) op =>
      let (t, s) := acc
      if op = "a" then
        let (id, t') := Tracker.add t
        (t', s ++ s!"+{id}" ++ idsStr t'.ids)
      else
        let t' := Tracker.remove t ((String.ofList op.toList.tail).toNat?.getD 0)
        (t', s ++ idsStr t'.ids)) (Tracker.new (m.toNat?.getD 0), "")
    let out := if out.isEmpty then "-" else out
    (out, out)
  | _ => ("bad-case", "bad-case")

/-! ### flt / fltm -/

def utf8Chars (h : String) : List Char :=
  match ofHex h with
  | some bs => match String.fromUTF8? (ByteArray.mk (bs.map (·.toUInt8)).toArray) with
    | some s => s.toList
    | none => []
  | none => []

def fieldStr : Filter.Field → String
  | .any => "*"
  | .lit n => toString n

def runFlt (tok : List String) : String × String :=
  match tok with
  | [_, h] =>
    let r := match Filter.parseWildcard (utf8Chars h) with
      | some w => "ok{b3:" ++ fieldStr w.b3 ++ ",b2:" ++ fieldStr w.b2 ++ ",b1:" ++ fieldStr w.b1 ++ ",b0:" ++ fieldStr w.b0 ++ "}"
      | none => "err"
    (r, r)
  | _ => ("bad-case", "bad-case")

/-- textual peer addresses: dotted IPv4 is parsed, anything else is an IPv6 address kept
    opaque by its text (equality on the canonical text the generator uses) -/
def parseAddr (s : String) : Filter.Addr :=
  match (s.splitOn ".").map String.toNat? with
  | [some a, some b, some c, some d] => .v4 a b c d
  | _ => .v6 (s.toList.map Char.toNat)

def runFltm (tok : List String) : String × String :=
  match tok with
  | [_, f, a] =>
    let addr := parseAddr a
    let kind := f.toList.headD 'a'
    let rest := String.ofList f.toList.tail
    let flt : Option Filter.AddressFilter :=
      if kind = 'a' then some .any
      else if kind = 'x' then some (.exact (parseAddr rest))
      else if kind = 's' then some (.anyOf ((rest.splitOn "/").filter (· ≠ "") |>.map parseAddr))
      else (Filter.parseWildcard (utf8Chars rest)).map .wildcard
    let r := match flt with
      | some fl => toString (fl.matches addr)
      | none => "badfilter"
    (r, r)
  | _ => ("bad-case", "bad-case")

end Rodbus.Driver
