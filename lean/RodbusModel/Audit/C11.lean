import RodbusModel.Props.C11
/-! axiom audit of every property theorem of Props/C11 -/
#print axioms Rodbus.Client.one_outstanding
#print axioms Rodbus.Client.write_only_when_idle
#print axioms Rodbus.Client.fifo_order
#print axioms Rodbus.Client.txid_formula
#print axioms Rodbus.Client.mbap_stamps_txid
#print axioms Rodbus.Client.sent_frame
#print axioms Rodbus.Client.txid_next_wraps
#print axioms Rodbus.Client.consecutive_differ
#print axioms Rodbus.Client.mismatch_discarded
#print axioms Rodbus.Client.mismatch_discarded_at_deadline
#print axioms Rodbus.Client.stale_frame_never_accepted
#print axioms Rodbus.Client.stale_frame_never_accepted_mbap
#print axioms Rodbus.Client.stale_frame_never_accepted_rtu
#print axioms Rodbus.Client.stale_garbage_fails_request
#print axioms Rodbus.Client.idle_dropped
#print axioms Rodbus.Client.idle_frame_no_effect
#print axioms Rodbus.Client.fifo_reach
#print axioms Rodbus.Client.txSeq_reach
#print axioms Rodbus.Client.out_reach
#print axioms Rodbus.Client.mbap_discardComplete
#print axioms Rodbus.Client.rtu_discardCompleteAt
