import RodbusModel.Props.C05Cancel
import RodbusModel.Props.C20
#print axioms Rodbus.C20.decode_noninterference_server
#print axioms Rodbus.C20.cutScript_insert_setDecode
#print axioms Rodbus.C20.level_change_transparent_server
#print axioms Rodbus.C20.cutScript_filter
#print axioms Rodbus.C20.level_changes_transparent_server
#print axioms Rodbus.Cancel.session_cancel_safe
#print axioms Rodbus.Cancel.cancel_safe_mbap
#print axioms Rodbus.Cancel.cancel_safe_rtu
