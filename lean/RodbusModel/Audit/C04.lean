import RodbusModel.Props.C04
/-! axiom audit of every property theorem of Props/C04 -/
#print axioms Rodbus.C04.success_iff
#print axioms Rodbus.C04.reply_data_unique
#print axioms Rodbus.C04.success_function_code
#print axioms Rodbus.C04.exception_iff
#print axioms Rodbus.C04.orErr_fc
#print axioms Rodbus.C04.exception_iff_spec
#print axioms Rodbus.C04.otherwise_error
#print axioms Rodbus.C04.trichotomy
#print axioms Rodbus.C04.badRequest_iff
#print axioms Rodbus.C04.empty_reply
#print axioms Rodbus.C04.foreign_function_code
#print axioms Rodbus.C04.exception_code_roundtrip
#print axioms Rodbus.C04.exception_code_injective
#print axioms Rodbus.C04.exOfByte_table
#print axioms Rodbus.C04.exOfByte_unlisted
#print axioms Rodbus.C04.exToByte_table
#print axioms Rodbus.C04.exToByte_unlisted
#print axioms Rodbus.C04.returned_indices
#print axioms Rodbus.C04.returned_values
#print axioms Rodbus.C04.readAll_ok_iff
#print axioms Rodbus.C04.readAll_error_iff
#print axioms Rodbus.C04.end_to_end
#print axioms Rodbus.C04.end_to_end_wire
