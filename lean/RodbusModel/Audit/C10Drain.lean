import RodbusModel.Props.C10Drain
/-! axiom audit of every property theorem of Props/C10Drain and of the lemmas it rests on -/
#print axioms Rodbus.Client.drain_completes
#print axioms Rodbus.Client.drain_completes_mbap
#print axioms Rodbus.Client.drain_completes_rtu
#print axioms Rodbus.Client.drain_completes_once
#print axioms Rodbus.Client.mbap_consuming
#print axioms Rodbus.Client.rtu_consuming
#print axioms Rodbus.Client.readerPoll_measure
#print axioms Rodbus.Client.tick_mu
#print axioms Rodbus.Client.settle_progress
#print axioms Rodbus.Client.blocked_cases
#print axioms Rodbus.Client.inflight_advance
#print axioms Rodbus.Client.kick
#print axioms Rodbus.Client.drains_all
