import RodbusModel.Model.Rtu
/-
  Whole-stream specification of RTU framing: which events a serial byte stream denotes,
  independently of buffers, parser states and of how the bytes arrive.
-/
namespace Rodbus.Rtu
open Rodbus.Crc

/-- how the frame at the head of a stream is delimited -/
inductive Delim
  /-- not enough bytes yet to know the length -/
  | more
  /-- the function code has no length rule -/
  | bad (fc : Nat)
  /-- the PDU is the function code followed by `n` bytes -/
  | len (n : Nat)
deriving DecidableEq, Repr

/-- the length of the frame at the head of the stream, a function of the function code
    (second byte) and, for the `offset k` modes, of the byte-count byte (`k`-th byte of the PDU) -/
def frameLen? (d : Dir) (s : Bytes) : Delim :=
  match s with
  | _dest :: fc :: rest =>
    match lengthMode d fc with
    | .unknown => .bad fc
    | .fixed n => .len n
    | .offset k =>
      match (fc :: rest)[k]? with
      | none => .more
      | some extra => .len (k + extra)
  | _ => .more

/-- total number of bytes (address, PDU, CRC) of the frame at the head of the stream -/
def frameSpan (d : Dir) (s : Bytes) : Option Nat :=
  match frameLen? d s with
  | .len n => some (n + 4)
  | _ => none

/-- the events of a serial byte stream: frames whose CRC verifies, up to the first framing
    error (which ends the session) or to the incomplete tail of the stream -/
def specFrames (d : Dir) (s : Bytes) : List Event :=
  match frameLen? d s with
  | .more => []
  | .bad fc => [.err (.unknownFunctionCode fc)]
  | .len n =>
    if n + 1 > 253 then [.err (.frameLengthTooBig (n + 1) 253)]
    else if h : s.length < n + 4 then []
    else
      let dest := s.headD 0
      let body := s.drop 1
      let pdu := body.take (n + 1)
      let received := be16 (body.getD (n + 2) 0) (body.getD (n + 1) 0)
      let expected := crc (dest :: pdu)
      if received ≠ expected then [.err (.crcValidationFailure received expected)]
      else .frame ⟨none, dest, pdu⟩ :: specFrames d (body.drop (n + 3))
termination_by s.length
decreasing_by simp [List.length_drop]; omega

/-- the length the length rule of direction `d` assigns to a PDU (function byte first), read
    off the PDU itself: function code and, for the `offset k` modes, its `k`-th byte -/
def pduLenRule (d : Dir) (pdu : Bytes) : Option Nat :=
  match pdu with
  | [] => none
  | fc :: _ =>
    match lengthMode d fc with
    | .fixed n => some (1 + n)
    | .offset k =>
      match pdu[k]? with
      | some extra => some (1 + k + extra)
      | none => none
    | .unknown => none

/-- a PDU of at most 253 bytes whose length agrees with the length rule of direction `d` -/
def WellFormedPdu (d : Dir) (pdu : Bytes) : Prop :=
  pdu.WF ∧ pdu.length ≤ 253 ∧ pduLenRule d pdu = some pdu.length

instance (d : Dir) (pdu : Bytes) : Decidable (WellFormedPdu d pdu) :=
  inferInstanceAs (Decidable (pdu.WF ∧ pdu.length ≤ 253 ∧ pduLenRule d pdu = some pdu.length))

end Rodbus.Rtu
