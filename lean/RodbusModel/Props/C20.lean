import RodbusModel.Model.Session
/-
  C20 — Protocol decoding (logging) is purely observational: server side.
  (the client side is in Props/C20Client)
-/
namespace Rodbus.C20

/-- **decode_noninterference** (server): for every script, configuration and pair of levels the
    bytes written, the application calls, the final states and the way the session ends are the
    same; the level only selects log lines -/
theorem decode_noninterference_server {σ : Type} (fr : Framing) (cfg : ServerCfg σ)
    (l₁ l₂ : DecodeLevel) (hs : List (Nat × σ)) (script : List SessStep) :
    runSession fr cfg l₁ hs script = runSession fr cfg l₂ hs script := rfl

theorem cutScript_insert_setDecode (a b : List SessStep) (l : DecodeLevel) :
    cutScript (a ++ [.setDecode l] ++ b) = cutScript (a ++ b) := by
  induction a with
  | nil => simp [cutScript]
  | cons s rest ih =>
    cases s with
    | data bs =>
      simp only [List.cons_append, cutScript]
      have := ih
      simp only [List.append_assoc] at this ⊢
      rw [this]
    | setDecode l' =>
      simp only [List.cons_append, cutScript]
      simpa [List.append_assoc] using ih
    | shutdown => simp [cutScript]
    | readErr => simp [cutScript]
    | eof => simp [cutScript]

/-- **level_change_transparent** (server): inserting a `ChangeDecoding` command at any position
    of the script — between frames or in the middle of a partially received frame — changes
    nothing: no buffered byte is lost (the reader state lives in the session, not in the
    cancelled `next_frame` future), nothing is reordered -/
theorem level_change_transparent_server {σ : Type} (fr : Framing) (cfg : ServerCfg σ)
    (l l' : DecodeLevel) (hs : List (Nat × σ)) (a b : List SessStep) :
    runSession fr cfg l hs (a ++ [.setDecode l'] ++ b) = runSession fr cfg l hs (a ++ b) := by
  unfold runSession
  rw [cutScript_insert_setDecode]

theorem cutScript_filter (script : List SessStep) :
    cutScript (script.filter fun s => match s with | .setDecode _ => false | _ => true)
      = cutScript script := by
  induction script with
  | nil => rfl
  | cons s rest ih =>
    cases s with
    | data bs => simp only [cutScript, List.filter]; rw [ih]
    | setDecode l' => simpa [cutScript, List.filter] using ih
    | shutdown => simp [cutScript, List.filter]
    | readErr => simp [cutScript, List.filter]
    | eof => simp [cutScript, List.filter]

/-- any number of level changes anywhere -/
theorem level_changes_transparent_server {σ : Type} (fr : Framing) (cfg : ServerCfg σ)
    (l : DecodeLevel) (hs : List (Nat × σ)) (script : List SessStep) :
    runSession fr cfg l hs script =
      runSession fr cfg l hs (script.filter fun s => match s with | .setDecode _ => false | _ => true) := by
  unfold runSession
  rw [cutScript_filter]

/-- the level does matter for what it is meant to matter: the number of log lines -/
example : logLines ⟨0, 0, 0⟩ true = 0 ∧ logLines ⟨3, 2, 2⟩ true = 6 := by decide

/-- non-vacuity: a level change in the middle of a frame -/
example :
    (cutScript [.data [0, 1, 0, 0], .setDecode ⟨3, 2, 2⟩, .data [0, 6, 1, 3, 0, 0, 0, 1], .eof]).1 =
    (cutScript [.data [0, 1, 0, 0], .data [0, 6, 1, 3, 0, 0, 0, 1], .eof]).1 := by decide

end Rodbus.C20
