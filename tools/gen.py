#!/usr/bin/env python3
"""Case generators for the correspondence suites (line formats: /verif/PROTOCOL.md).

Every random choice derives from one SplitMix64 state seeded by (VERIF_SEED, suite name), so a
run is reproducible from the seed alone.  Each generator yields case lines; structured,
mostly-valid traffic comes first, then a malformed stream, then exhaustive sub-domains.
"""
import itertools

MASK = (1 << 64) - 1


class Rng:
    def __init__(self, seed, name=""):
        s = seed & MASK
        for ch in name.encode():
            s = (s * 1099511628211 + ch) & MASK
        self.s = s

    def next(self):
        self.s = (self.s + 0x9E3779B97F4A7C15) & MASK
        z = self.s
        z = ((z ^ (z >> 30)) * 0xBF58476D1CE4E5B9) & MASK
        z = ((z ^ (z >> 27)) * 0x94D049BB133111EB) & MASK
        return z ^ (z >> 31)

    def below(self, n):
        return self.next() % n if n > 0 else 0

    def rng(self, a, b):  # inclusive
        return a + self.below(b - a + 1)

    def pick(self, xs):
        return xs[self.below(len(xs))]

    def chance(self, num, den):
        return self.below(den) < num

    def bytes(self, n):
        return bytes(self.below(256) for _ in range(n))


def hx(b):
    return b.hex() if len(b) else "-"


def be16(n):
    return bytes([(n >> 8) & 0xFF, n & 0xFF])


def crc16(data):
    crc = 0xFFFF
    for b in data:
        crc ^= b
        for _ in range(8):
            crc = (crc >> 1) ^ 0xA001 if crc & 1 else crc >> 1
    return crc


def mbap(tx, unit, pdu, proto=0, length=None):
    ln = len(pdu) + 1 if length is None else length
    return be16(tx) + be16(proto) + be16(ln & 0xFFFF) + bytes([unit]) + pdu


def rtu(dest, pdu, bad_crc=False):
    body = bytes([dest]) + pdu
    c = crc16(body)
    if bad_crc:
        c ^= 0x0100
    return body + bytes([c & 0xFF, c >> 8])


DECODE_LEVELS = ["d000", "d322", "d100", "d211", "d312", "d021", "d302"]


def decode_tok(r):
    return r.pick(DECODE_LEVELS) if r.chance(1, 3) else "d000"


# ---------------------------------------------------------------- chunkings

def chunkings(r, data, how=None):
    """split `data` into a list of chunks according to a random strategy"""
    n = len(data)
    if n == 0:
        return []
    how = how or r.pick(["whole", "bytes", "uniform", "geom", "two", "fill"])
    if how == "whole":
        return [data]
    if how == "bytes":
        return [data[i:i + 1] for i in range(n)]
    if how == "two":
        k = r.rng(0, n)
        return [c for c in (data[:k], data[k:]) if c]
    cuts = []
    i = 0
    while i < n:
        if how == "uniform":
            step = r.rng(1, 40)
        elif how == "geom":
            step = 1
            while r.chance(3, 4) and step < 300:
                step += r.rng(1, 8)
        else:  # fill: sizes around the buffer capacity
            step = r.pick([259, 260, 261, 253, 254, 7, 6, 8, 1, 520])
        cuts.append(data[i:i + step])
        i += step
    return cuts


def all_compositions(data):
    n = len(data)
    for mask in range(1 << (n - 1)) if n > 0 else []:
        out = []
        start = 0
        for i in range(n - 1):
            if mask >> i & 1:
                out.append(data[start:i + 1])
                start = i + 1
        out.append(data[start:])
        yield out


def chunks_tok(chunks):
    return ",".join(hx(c) for c in chunks) if chunks else "-"


# ---------------------------------------------------------------- request PDUs

READ_LIMIT = {1: 2000, 2: 2000, 3: 125, 4: 125}


def boundary_u16(r, extra=()):
    return r.pick([0, 1, 2, 7, 8, 9, 255, 256, 257, 65534, 65535] + list(extra))


def valid_request(r, seg_hint=None):
    """a syntactically valid request PDU (may still hit absent points)"""
    fc = r.pick([1, 2, 3, 4, 5, 6, 15, 16])
    if seg_hint and r.chance(4, 5):
        start = r.rng(seg_hint[0], seg_hint[0] + max(0, seg_hint[1] - 1))
    else:
        start = boundary_u16(r) if r.chance(1, 3) else r.below(65536)
    if fc in (1, 2, 3, 4):
        lim = READ_LIMIT[fc]
        cnt = r.pick([1, 2, 7, 8, 9, 16, lim - 1, lim]) if r.chance(1, 2) else r.rng(1, lim)
        cnt = max(1, min(cnt, 65536 - start))
        return bytes([fc]) + be16(start) + be16(cnt)
    if fc == 5:
        return bytes([fc]) + be16(start) + (b"\xff\x00" if r.chance(1, 2) else b"\x00\x00")
    if fc == 6:
        return bytes([fc]) + be16(start) + be16(r.below(65536))
    if fc == 15:
        cnt = r.pick([1, 7, 8, 9, 15, 16, 17, 1967, 1968]) if r.chance(1, 2) else r.rng(1, 1968)
        cnt = max(1, min(cnt, 65536 - start))
        nb = (cnt + 7) // 8
        bc = nb & 0xFF if r.chance(9, 10) else r.below(256)
        return bytes([fc]) + be16(start) + be16(cnt) + bytes([bc]) + r.bytes(nb)
    cnt = r.pick([1, 2, 122, 123]) if r.chance(1, 2) else r.rng(1, 123)
    cnt = max(1, min(cnt, 65536 - start))
    bc = (2 * cnt) & 0xFF if r.chance(9, 10) else r.below(256)
    return bytes([fc]) + be16(start) + be16(cnt) + bytes([bc]) + r.bytes(2 * cnt)


def malformed_request(r):
    """grammar-aware mutation of a valid request, or raw bytes"""
    k = r.below(12)
    if k == 0:
        return b""
    if k == 1:
        return bytes([r.pick([0, 7, 8, 14, 17, 20, 43, 0x81, 0x8F, 0x90, 128, 255])]) + r.bytes(r.below(8))
    if k == 2:
        return r.bytes(r.rng(1, 12))
    p = bytearray(valid_request(r))
    fc = p[0]
    if k == 3:  # truncate
        return bytes(p[:r.rng(1, max(1, len(p) - 1))])
    if k == 4:  # extend
        return bytes(p) + r.bytes(r.rng(1, 3))
    if k == 5 and len(p) >= 5:  # zero quantity
        p[3] = 0
        p[4] = 0
        return bytes(p)
    if k == 6 and len(p) >= 5:  # overflow the address space
        start = 65535 - r.below(3)
        p[1:3] = be16(start)
        cnt = (p[3] << 8) | p[4]
        if start + cnt <= 65536:
            p[3:5] = be16(min(65535, 65536 - start + 1 + r.below(3)))
        return bytes(p)
    if k == 7 and fc in (1, 2, 3, 4):  # over the read limit
        lim = READ_LIMIT[fc]
        p[1:3] = be16(r.below(100))
        p[3:5] = be16(r.pick([lim + 1, lim + 2, 2 * lim, 65535]))
        return bytes(p)
    if k == 8 and fc == 5:  # undefined coil value
        p[3:5] = be16(r.pick([1, 0xFF, 0x00FF, 0xFF01, 0xFFFF, 0x0100, r.below(65536)]))
        return bytes(p)
    if k == 9 and fc in (15, 16):  # over the write limit, payload of matching length
        start = r.below(1000)
        if fc == 15:
            cnt = r.pick([1969, 1970, 1976, 1977, 2000, 2008])
            nb = (cnt + 7) // 8
        else:
            cnt = r.pick([124, 125, 126])
            nb = 2 * cnt
        return bytes([fc]) + be16(start) + be16(cnt) + bytes([nb & 0xFF]) + r.bytes(nb)
    if k == 10 and fc in (15, 16):  # payload length off by one
        return bytes(p[:-1]) if r.chance(1, 2) else bytes(p) + b"\x00"
    # flip a byte
    i = r.below(len(p))
    p[i] ^= 1 << r.below(8)
    return bytes(p)


# ---------------------------------------------------------------- units

def random_units(r, rtu_mode):
    """unit descriptors + list of (unit, table, start, len) hints"""
    n = r.pick([0, 1, 1, 1, 2, 2, 3, 4])
    ids = []
    pool = [1, 2, 3, 9, 42, 247, 255] + ([0] if not rtu_mode or r.chance(1, 6) else [])
    while len(ids) < n:
        u = r.pick(pool) if r.chance(3, 4) else r.below(256)
        if u not in ids:
            ids.append(u)
    toks = []
    hints = []
    for u in ids:
        if r.chance(1, 12):
            toks.append(f"{u}:D")        # a handler that overrides none of the provided trait methods
            continue
        items = []
        for table in range(4):
            for _ in range(r.pick([0, 1, 1, 2])):
                start = r.pick([0, 0, 10, 100, 1000, 65000, 65530, 65535 - r.below(20)])
                ln = r.pick([1, 8, 20, 130, 2100])
                ln = min(ln, 65536 - start)
                items.append(f"s{table}.{start}.{ln}.{r.below(50)}")
                hints.append((u, table, start, ln))
                if r.chance(1, 3):
                    a = start + r.below(ln)
                    items.append(f"x{table}.{a}.{r.pick([1, 2, 3, 4, 5, 6, 8, 10, 11, 0, 7, 99, 255])}")
                if table in (0, 2) and r.chance(1, 3):
                    a = start + r.below(ln)
                    items.append(f"w{table}.{a}.{r.pick([1, 2, 3, 4, 6, 11, 77, 200])}")
        toks.append(f"{u}:" + ",".join(items))
    return (";".join(toks) if toks else "-"), ids, hints


def auth_tok(r):
    role = r.pick(["", "operator", "viewer", "röle", "x" * 40, "a"]).encode()
    pol = r.pick(["allow", "deny", "ro", "default", f"h{r.below(1000)}", f"h{r.below(1000)}"])
    return f"{pol}.r{role.hex()}"


# ---------------------------------------------------------------- suites

def gen_range(r, n, tier):
    edge = [0, 1, 2, 255, 256, 32767, 32768, 65534, 65535]
    for s in edge:
        for c in edge:
            yield f"range {s} {c}"
    for s in edge:
        for d in (-2, -1, 0, 1, 2):
            c = 65536 - s + d
            if 0 <= c <= 65535:
                yield f"range {s} {c}"
    for _ in range(n):
        yield f"range {r.below(65536)} {r.below(65536)}"


def gen_crc(r, n, tier):
    vecs = ["2a0100100013", "2a0200100013", "2a0300100003", "2a0400100003", "2a050010ff00",
            "2a0600101234", "2a0f0010000a021234", "2a1000100002041234 5678".replace(" ", "")]
    for v in vecs:
        yield f"crc {v}"
    yield "crc -"
    for _ in range(n):
        yield f"crc {hx(r.bytes(r.rng(1, 260)))}"


def mbap_stream(r, nframes, allow_bad=True):
    """concatenation of valid frames, optionally ending in a bad header / garbage"""
    out = b""
    for _ in range(nframes):
        k = r.below(20)
        if k < 14:
            ln = r.pick([0, 1, 2, 5, 6, 100, 252, 253]) if r.chance(1, 3) else r.below(254)
            out += mbap(r.below(65536), r.below(256), r.bytes(ln))
        elif k < 16:
            out += mbap(r.below(65536), r.below(256), valid_request(r))
        elif allow_bad:
            kind = r.below(4)
            if kind == 0:
                out += mbap(r.below(65536), r.below(256), r.bytes(r.below(10)), proto=r.rng(1, 65535))
            elif kind == 1:
                out += mbap(r.below(65536), r.below(256), b"", length=0)
            elif kind == 2:
                out += mbap(r.below(65536), r.below(256), r.bytes(r.below(300)),
                            length=r.pick([255, 256, 300, 65535, 254 + r.rng(1, 1000)]))
            else:
                out += r.bytes(r.rng(1, 30))
            out += mbap(r.below(65536), r.below(256), r.bytes(r.below(20)))
    if r.chance(1, 4):
        out = out[:r.rng(0, len(out))]
    return out


def gen_rdr_mbap(r, n, tier):
    # exhaustive: all compositions of short streams
    shorts = [mbap(7, 0x2A, bytes([1, 0xCA, 0xFE])),
              mbap(1, 1, b"\x03") + mbap(2, 2, b""),                 # adu length 0 frame
              mbap(1, 1, b"", length=0) + b"\x01",
              mbap(1, 1, b"\x01", proto=1) + b"\x00\x01",
              mbap(9, 3, b"\x05\x06")[:9]]
    lim = 12 if tier == "thorough" else 10
    for s in shorts:
        s = s[:lim]
        for comp in all_compositions(s):
            yield f"rdr t d000 {chunks_tok(comp)}"
    # exhaustive: header length fields
    fields = range(0, 65536) if tier == "thorough" else list(range(0, 600)) + [1000, 32768, 65535]
    for lf in fields:
        for proto in (0, 1):
            hdr = be16(3) + be16(proto) + be16(lf) + b"\x11"
            yield f"rdr t d000 {hx(hdr + bytes(range(1, 9)))}"
    # maximum-size frame at every split point
    big = mbap(0x1234, 7, bytes((i * 7) % 256 for i in range(253)))
    step = 1 if tier == "thorough" else 13
    for k in range(0, len(big) + 1, step):
        cs = [c for c in (big[:k], big[k:]) if c]
        yield f"rdr t d000 {chunks_tok(cs)}"
    # buffer-boundary streams: frames sized so that a header starts at 258..260
    for pre in range(240, 262):
        first = mbap(1, 1, bytes(pre % 254))
        s = first + mbap(2, 2, bytes(10)) * 3 + mbap(3, 3, bytes(253))
        for how in ("whole", "fill", "bytes"):
            yield f"rdr t d000 {chunks_tok(chunkings(r, s, how))}"
    for _ in range(n):
        s = mbap_stream(r, r.rng(1, 30))
        yield f"rdr t {decode_tok(r)} {chunks_tok(chunkings(r, s))}"


def gen_srv(r, n, tier, rtu_mode=False, with_auth=None):
    fr = "r" if rtu_mode else "t"

    def frame(tx, unit, pdu):
        return rtu(unit, pdu) if rtu_mode else mbap(tx, unit, pdu)

    # exhaustive: every function byte x short payload lengths x three unit situations
    units_fixed = "1:s0.0.100.3,s1.0.100.4,s2.0.100.5,s3.0.100.6"
    if not rtu_mode:
        lens = range(0, 13) if tier == "thorough" else (0, 1, 3, 4, 5, 6)
        for fcb in range(256):
            for ln in lens:
                body = bytes([0, 1, 0, 2, 2, 0, 1, 0, 2, 0, 0, 0][:ln])
                for unit in (1, 9):
                    yield f"srv t d000 - {units_fixed} {hx(mbap(fcb, unit, bytes([fcb]) + body))}"
        yield f"srv t d000 - {units_fixed} {hx(mbap(1, 1, b''))}"
        yield f"srv t d000 - - {hx(mbap(1, 1, bytes([1, 0, 0, 0, 1])))}"
    # exhaustive: the eight request kinds (this is what determines, by behaviour, the tables of
    # request.rs / task.rs / handler.rs when their source can no longer be translated)
    eight = [bytes([1, 0, 2, 0, 3]), bytes([2, 0, 2, 0, 3]), bytes([3, 0, 2, 0, 2]), bytes([4, 0, 2, 0, 2]),
             bytes([5, 0, 2, 0xFF, 0]), bytes([6, 0, 2, 0x12, 0x34]), bytes([15, 0, 2, 0, 3, 1, 5]),
             bytes([16, 0, 2, 0, 2, 4, 0, 7, 0, 8])]
    two_units = units_fixed + ";2:s0.0.50.7,s2.0.50.8"
    if with_auth is True:
        # every policy (incl. the trait's default methods and the real read-only handler) x kind x
        # {configured, unconfigured} unit
        for pol in ("allow", "deny", "ro", "default", "h1", "h2", "h3"):
            for role in ("", "6f70"):
                for pdu in eight:
                    for unit in (1, 9):
                        yield f"srv t d000 {pol}.r{role} {units_fixed} {hx(mbap(7, unit, pdu))}"
    if with_auth is None:
        # a handler relying on the provided methods of `RequestHandler` (exception 01 for everything)
        for pdu in eight:
            yield f"srv {fr} d000 - 1:D;2:s0.0.10.1,s2.0.10.2 {hx(frame(1, 1, pdu))},{hx(frame(2, 2, pdu))}"
            yield f"srv {fr} d000 - 1:D {hx(frame(1, 1, pdu))}"
    if with_auth is None:
        # the SAME handler object registered under two unit ids (`2=1`): unicast through either id,
        # and - on RTU - broadcasts, which reach that object once per id it is registered under
        for pdu in eight:
            yield f"srv {fr} d000 - 1:D;2=1;3:s0.0.10.1,s2.0.10.2 {hx(frame(1, 0, pdu))},{hx(frame(2, 2, pdu))},{hx(frame(3, 3, bytes([3, 0, 2, 0, 2])))}"
    if with_auth is None and not rtu_mode:
        # every exception code a handler can return (ExceptionCode <-> u8 in both directions)
        for code in range(256):
            yield f"srv t d000 - 1:s0.0.20.3,x0.5.{code},s2.0.20.4,w2.6.{code} {hx(mbap(1, 1, bytes([1, 0, 5, 0, 1])))},{hx(mbap(2, 1, bytes([6, 0, 6, 0, 1])))}"
    if rtu_mode:
        # broadcast: each kind to unit 0 with two units, followed by a sentinel read of each unit
        sentinel = hx(rtu(1, bytes([3, 0, 2, 0, 2]))) + "," + hx(rtu(2, bytes([3, 0, 2, 0, 2])))
        for pdu in eight:
            yield f"srv r d000 - {two_units} {hx(rtu(0, pdu))},{sentinel}"
        # the length rule for every function byte (request direction), then a sentinel
        for fcb in range(256):
            yield f"srv r d000 - {units_fixed} {hx(rtu(1, bytes([fcb, 0, 2, 0, 1])))},{hx(rtu(1, bytes([3, 0, 2, 0, 2])))}"
    # boundary lattice of quantity x start for every function
    lattice_units = "1:s0.0.65536.3,s1.0.65536.4,s2.0.65536.5,s3.0.65536.6"
    for fc in (1, 2, 3, 4, 15, 16):
        lim = {1: 2000, 2: 2000, 3: 125, 4: 125, 15: 1968, 16: 123}[fc]
        for q in (0, 1, lim - 1, lim, lim + 1, 65535):
            for s in {0, 1, max(0, 65535 - q), max(0, 65536 - q), 65535}:
                if fc in (1, 2, 3, 4):
                    pdu = bytes([fc]) + be16(s) + be16(q)
                else:
                    nb = (q + 7) // 8 if fc == 15 else 2 * q
                    if nb > 250:
                        nb = 250 if q > lim + 8 else nb
                    pdu = bytes([fc]) + be16(s) + be16(q) + bytes([nb & 0xFF]) + bytes(min(nb, 252 - 6))
                    pdu = pdu[:253]
                for unit in (1, 9):
                    if rtu_mode and fc in (15, 16) and len(pdu) - 6 != pdu[5]:
                        continue  # RTU delimits by the byte count: not a well-framed request
                    yield f"srv {fr} d000 - {lattice_units} {hx(frame(5, unit, pdu))}"
    # generated sessions
    for _ in range(n):
        units, ids, hints = random_units(r, rtu_mode)
        auth = "-"
        if with_auth is True or (with_auth is None and r.chance(1, 4)):
            auth = auth_tok(r)
        nreq = r.rng(1, 40) if tier == "thorough" else r.rng(1, 12)
        stream = []
        for i in range(nreq):
            k = r.below(10)
            if ids and k < 7:
                unit = r.pick(ids)
            elif k < 8:
                unit = r.pick([0, 1, 9, 255]) if not rtu_mode else r.pick([0, 0, 1, 9])
            else:
                unit = r.below(256)
            hint = None
            uh = [h for h in hints if h[0] == unit]
            if uh:
                h = r.pick(uh)
                hint = (h[2], h[3])
            if r.chance(3, 4):
                pdu = valid_request(r, hint)
            else:
                pdu = malformed_request(r)
            if rtu_mode:
                # an RTU stream must stay delimitable: only requests whose length the framer
                # derives correctly are "well-framed"; malformed ones are kept when they have
                # the length their function code implies
                if not rtu_request_delimitable(pdu):
                    pdu = valid_request(r, hint)
            stream.append(frame(r.below(65536), unit, pdu))
        if stream and r.chance(1, 8):
            # a framing error in the middle of the session (bad CRC / bad MBAP header): nothing of
            # that frame reaches a handler, the session ends there, what follows is not served
            i = r.below(len(stream))
            f = bytearray(stream[i])
            if rtu_mode:
                f[r.below(len(f))] ^= 1 << r.below(8)
            else:
                k = r.below(3)
                if k == 0:
                    f[2:4] = be16(r.pick([1, 256, 0xFFFF]))           # protocol id
                elif k == 1:
                    f[4:6] = be16(0)                                   # length 0
                else:
                    f[4:6] = be16(r.pick([255, 256, 1000, 0xFFFF]))    # length too big
            stream[i] = bytes(f)
        data = b"".join(stream)
        steps = []
        if r.chance(1, 2):
            steps = [hx(f) for f in stream]
        else:
            steps = [hx(c) for c in chunkings(r, data)]
        if r.chance(1, 6) and steps:
            steps.insert(r.below(len(steps) + 1), "!" + r.pick(DECODE_LEVELS))
        if r.chance(1, 12) and steps:
            steps.insert(r.below(len(steps) + 1), r.pick(["!s", "!x"]))
        yield f"srv {fr} {decode_tok(r)} {auth} {units} {','.join(steps) if steps else '-'}"


def rtu_request_delimitable(pdu):
    if not pdu:
        return False
    fc = pdu[0]
    if fc in (1, 2, 3, 4, 5, 6):
        return len(pdu) == 5
    if fc in (15, 16):
        return len(pdu) >= 6 and len(pdu) == 6 + pdu[5] and len(pdu) <= 253
    return False


def valid_response(r):
    """a syntactically valid response PDU (length rule of the response parser holds)"""
    fc = r.pick([1, 2, 3, 4, 5, 6, 15, 16, 0x81, 0x83, 0x8F, 0x90, 0xAB])
    if fc >= 0x80:
        return bytes([fc, r.pick([1, 2, 3, 4, 6, 11, r.below(256)])])
    if fc in (1, 2):
        n = r.pick([0, 1, 2, 250, 251]) if r.chance(1, 3) else r.rng(0, 251)
        return bytes([fc, n]) + r.bytes(n)
    if fc in (3, 4):
        n = r.pick([0, 2, 250]) if r.chance(1, 3) else 2 * r.rng(0, 125)
        return bytes([fc, n]) + r.bytes(n)
    return bytes([fc]) + r.bytes(4)


def rtu_frames(r, direction, n):
    out = []
    for _ in range(n):
        pdu = None
        while pdu is None:
            pdu = valid_request(r) if direction == "q" else valid_response(r)
            if direction == "q" and not rtu_request_delimitable(pdu):
                pdu = None
        out.append(rtu(r.below(256) if r.chance(1, 4) else r.pick([0, 1, 42, 247, 255]), pdu))
    return out


FIXED_RTU = {
    "q": ["2a01001000137a19", "2a0200100013" + "3e19", "2a0300100003" + "0215", "2a0400100003b7d5",
          "2a050010ff008be4", "2a06001012348363", "2a0f0010000a021234002e", "2a100010000204123456780773"],
    "p": ["2a0103cd6b054499", "2a0203cd6b050099", "2a03061234567823453060", "2a04061234567823457186",
          "2a050010ff008be4", "2a06001012348363", "2a0f0010000ad212", "2a10001000024616"],
}


def xor_at(frame, bits):
    f = bytearray(frame)
    for b in bits:
        f[b // 8] ^= 1 << (b % 8)
    return bytes(f)


def gen_rdr_rtu(r, n, tier):
    for d in ("q", "p"):
        frames = [bytes.fromhex(x) for x in FIXED_RTU[d]]
        exc = rtu(0x2A, bytes([0x83, 2]))
        if d == "p":
            frames.append(exc)
        # all 16 fixed vectors back to back, whole and byte per byte
        s = b"".join(frames)
        yield f"rdr {d} d000 {hx(s)}"
        yield f"rdr {d} d000 {chunks_tok(chunkings(r, s, 'bytes'))}"
        # exhaustive: all chunk compositions of short frames
        for f in frames:
            if len(f) <= (11 if tier == "thorough" else 9):
                for comp in all_compositions(f):
                    yield f"rdr {d} d000 {chunks_tok(comp)}"
        # exhaustive: every single-bit error of every fixed frame; followed by a valid frame so
        # that a false accept / mis-delimitation becomes visible
        tail = frames[0]
        for f in frames:
            nb = 8 * len(f)
            for b in range(nb):
                yield f"rdr {d} d000 {hx(xor_at(f, [b]) + tail)}"
            # double-bit errors: all pairs (thorough) / a stride (quick)
            pairs = [(i, j) for i in range(nb) for j in range(i + 1, nb)]
            if tier != "thorough":
                pairs = [pr for k, pr in enumerate(pairs) if k % 23 == 0]
            for i, j in pairs:
                yield f"rdr {d} d000 {hx(xor_at(f, [i, j]) + tail)}"
            # bursts of length <= 16: first and last bit flipped, random interior
            starts = range(nb) if tier == "thorough" else range(0, nb, 3)
            for st in starts:
                for ln in ((2, 3, 5, 8, 9, 15, 16) if tier != "thorough" else range(2, 17)):
                    if st + ln > nb:
                        continue
                    bits = [st, st + ln - 1] + [st + k for k in range(1, ln - 1) if r.chance(1, 2)]
                    yield f"rdr {d} d000 {hx(xor_at(f, bits) + tail)}"
        # unknown function codes, too-long frames, wrong crc
        for fc in (0, 7, 8, 17, 43, 0x80, 0xFF):
            yield f"rdr {d} d000 {hx(bytes([1, fc]) + bytes(8))}"
        # exhaustive: the length rule for every function byte in this direction (a body whose byte
        # count positions say 2, then a valid frame: delimitation differences become visible)
        for fc in range(256):
            yield f"rdr {d} d000 {hx(bytes([1, fc, 2, 0, 2, 0, 2, 2, 0, 0, 0, 0]) + frames[0])}"
        yield f"rdr q d000 {hx(rtu(1, bytes([15, 0, 0, 0, 8, 250]) + bytes(250)))}"
        yield f"rdr p d000 {hx(rtu(1, bytes([3, 252]) + bytes(252)))}"
        yield f"rdr p d000 {hx(rtu(1, bytes([3, 251]) + bytes(251)))}"
        yield f"rdr p d000 {hx(rtu(1, bytes([1, 255]) + bytes(255)))}"
    for _ in range(n):
        d = r.pick(["q", "p"])
        frames = rtu_frames(r, d, r.rng(1, 12))
        k = r.below(10)
        if k == 0 and frames:
            i = r.below(len(frames))
            f = frames[i]
            frames[i] = xor_at(f, [r.below(8 * len(f))])
        elif k == 1 and frames:
            i = r.below(len(frames))
            frames[i] = frames[i][:-1] + bytes([frames[i][-1] ^ 0x10])
        elif k == 2:
            frames.insert(r.below(len(frames) + 1), r.bytes(r.rng(1, 10)))
        s = b"".join(frames)
        if r.chance(1, 5):
            s = s[:r.rng(0, len(s))]
        yield f"rdr {d} {decode_tok(r)} {chunks_tok(chunkings(r, s))}"


def dur_tok(ns):
    return f"{ns // 10**9}:{ns % 10**9}"


def gen_retry(r, n, tier):
    dmax = (2**64 - 1) * 10**9 + 999999999
    specials = [0, 1, 999999999, 10**9, 2 * 10**9, 60 * 10**9, 2**63 * 10**9, (2**64 - 1) * 10**9, dmax,
                dmax // 2, dmax // 2 + 1]
    for mn in specials:
        for mx in specials:
            yield f"retry {dur_tok(mn)} {dur_tok(mx)} fffdfrfffffff"
    # long runs of consecutive failures (counters that wrap at 2^8, 2^16; shifts that overflow at 32, 64)
    for mn, mx in ((10**6, 8 * 10**6), (10**9, 60 * 10**9), (1, dmax), (1, 2**40), (3, 3 * 2**70), (10**6, 10**6)):
        for k in (70, 300, 66000 if tier == "thorough" else 600):
            yield f"retry {dur_tok(mn)} {dur_tok(mx)} {'f' * k}d{'f' * 3}r{'f' * 3}"
    for _ in range(n):
        if r.chance(1, 8):
            mn, mx = r.pick(specials), r.pick(specials)
        else:
            mn = r.pick([r.below(10**4), r.below(10**10), r.below(10**12)])
            mx = r.pick([mn, mn + r.below(10**11), r.below(10**10), mn * r.rng(1, 1000)])
        ops = "".join(r.pick("ffffdr") for _ in range(r.rng(1, 80)))
        yield f"retry {dur_tok(mn)} {dur_tok(mx)} {ops}"


def gen_trk(r, n, tier):
    for m in range(0, 5):
        # exhaustive short op sequences over {add, remove small id}
        alphabet = ["a", "r0", "r1", "r2"]
        depth = 5 if tier == "thorough" else 4
        for k in range(1, depth + 1):
            for ops in itertools.product(alphabet, repeat=k):
                yield f"trk {m} {','.join(ops)}"
    for _ in range(n):
        m = r.pick([0, 1, 2, 3, 4, 8, 100])
        ops = []
        added = 0
        for _ in range(r.rng(1, 60)):
            if r.chance(3, 5) or added == 0:
                ops.append("a")
                added += 1
            else:
                ops.append(f"r{r.below(added + 2)}")
        yield f"trk {m} {','.join(ops)}"


def filter_string(r):
    def field():
        k = r.below(36)
        if k < 10:
            return "*"
        if k < 33:
            return str(r.pick([0, 1, 9, 10, 99, 100, 127, 199, 200, 249, 250, 254, 255, r.below(256)]))
        return r.pick(["256", "257", "300", "999", "1000", "00", "007", "0255", "0000000255", "0256", "+1",
                       "+255", "+256", "+", "-", "-0", "-1", "", " ", " 1", "1 ", "**", "*1", "1*", "a", "0x10",
                       "1e1", "\u0663", "\uff11", "１２", "1.", "٣", "255 ", "\t1", "+-1", "++1", "1_0"])
    nf = r.pick([4] * 16 + [3, 5, 0, 1, 2, 6])
    sep = "." if r.chance(39, 40) else r.pick([",", ":", "..", " ."])
    st = sep.join(field() for _ in range(nf))
    if r.chance(1, 40):
        st = r.pick([".", "...", "....", "", "*", "*.*.*", "*.*.*.*.", ".*.*.*.*"])
    return st.encode("utf-8").decode("unicode_escape", errors="ignore").encode("utf-8", errors="ignore") \
        if "\\u" in st else st.encode("utf-8")


def gen_flt(r, n, tier):
    fixed = ["172.17.20.*", "*.*.*.*", "1.2.3.4", "255.255.255.255", "0.0.0.0", "256.1.1.1", "1.2.3", "1.2.3.4.5",
             "", "*", "+1.02.3.4", "1.2.3.-4", "1..2.3", "1.2.3.", ".1.2.3", " 1.2.3.4", "1.2.3.4 ", "*.*.*.**",
             "٣.1.1.1", "１.1.1.1", "1.1.1.0000000255", "1.1.1.+0", "1.1.1.+"]
    for f in fixed:
        yield f"flt {hx(f.encode('utf-8'))}"
    for _ in range(n):
        yield f"flt {hx(filter_string(r))}"


def gen_fltm(r, n, tier):
    octs = [0, 1, 127, 128, 254, 255]
    peers = ["127.0.0.1", "127.0.0.2", "127.1.2.3", "10.0.0.1", "255.255.255.255", "0.0.0.0", "::1", "fe80::1",
             "::ffff:127.0.0.1"]
    # boundary lattice: every pattern over {*, o} per field x peers built from the same octets
    for pat in itertools.product(["*", "0", "127", "255"], repeat=4):
        w = ".".join(pat)
        for peer in (["127.0.0.1", "255.255.255.255", "0.0.0.0", "127.255.0.127", "::1"] if tier != "thorough"
                     else [".".join(map(str, p)) for p in itertools.product([0, 127, 255], repeat=4)] + ["::1"]):
            yield f"fltm w{hx(w.encode())} {peer}"
    for peer in peers:
        yield f"fltm any {peer}"
        for x in peers:
            yield f"fltm x{x} {peer}"
        yield f"fltm s127.0.0.1/::1/10.0.0.1 {peer}"
        yield f"fltm s {peer}"
    for _ in range(n):
        peer = ".".join(str(r.pick(octs + [r.below(256)])) for _ in range(4)) if r.chance(5, 6) else r.pick(["::1", "fe80::1"])
        k = r.below(4)
        if k == 0:
            f = "w" + hx(filter_string(r))
        elif k == 1:
            parts = peer.split(".") if "." in peer else ["1", "2", "3", "4"]
            w = ".".join(p if r.chance(1, 2) else r.pick(["*", str(r.below(256))]) for p in parts)
            f = "w" + hx(w.encode())
        elif k == 2:
            f = "x" + (peer if r.chance(1, 2) else r.pick(peers))
        else:
            f = "s" + "/".join(r.pick(peers + [peer]) for _ in range(r.below(5)))
        yield f"fltm {f} {peer}"


# life r<min ms>.<max ms> m<max timeouts|0> t<request timeout ms> [tls:]<behaviours> <stops>
#   behaviours: `/`-joined, one per connection attempt, the last one repeats, `b*n` = n attempts:
#     refuse | close | garbage | silent | serve | serve<k> (k requests served, then the peer closes)
#     | serve<k>w (the peer closes when request k+1 arrives); with `tls:` (TLS client) refuse |
#     hsclose | hsgarbage | hscert (handshake fails after the TCP connect succeeded) | serve | close
#   stops: `,`-joined, `-` or `+`-joined actions E D S X R L<0..3> (set_decode_level),
#     `stop*n` = n copies; one stop per listener callback / idle period, the stops left when the
#     task has ended are performed on the handles of the ended task (PROTOCOL.md, "life")
# life: attempts that end in `handle_failed_connection` (refused connect; TLS: the TCP connect
# succeeds and the handshake fails because the peer closes / sends garbage / presents the wrong
# certificate)
LIFE_FAILS = ("refuse", "hsclose", "hsgarbage", "hscert")
# returned by a `choose` callback of life_case: draw this stop at random
LIFE_RANDOM = "random"


def life_expand(items):
    """`x*n` stands for n copies of x (behaviours and stops of the life suite)"""
    out = []
    for it in items:
        if "*" in it:
            x, k = it.split("*")
            out.extend([x] * int(k))
        else:
            out.append(it)
    return out


def life_serve_limit(b):
    """`serve<k>` -> (k, False), `serve<k>w` -> (k, True), anything else -> None"""
    if not b or not b.startswith("serve") or b == "serve":
        return None
    rest = b[5:]
    wait = rest.endswith("w")
    digits = rest[:-1] if wait else rest
    return (int(digits), wait) if digits.isdigit() else None


class LifeSim:
    """coarse mirror of the lifecycle model, used ONLY to shape generated scripts (where the
    task is probably blocked, how many actions a stop can take without the harness racing the
    task); never used for verdicts.
    Commands other than E D S R (i.e. the decode-level changes L<n>) are consumed without effect
    in every phase.  Where the peer's EOF / garbage races a queued command (`select!` in
    `ClientLoop::poll`) the mirror takes one resolution (`pick`) and is `uncertain` from then on:
    the positions it predicts may be off, so later stops carry at most one action (safe at a
    callback, while the task is idle and after its end alike)."""

    def __init__(self, behaviours, maxto, pick=None, rmin=30, rmax=120):
        self.rmin, self.rmax = rmin, rmax
        self.fails = 0          # failed attempts since the last connection
        self.wait_ms = 0        # announced delays so far (estimate of the time spent waiting)
        self.enabled = False
        self.queue = []
        self.handles = True
        self.behaviours = life_expand(behaviours)
        self.maxto = maxto
        self.tcount = 0
        self.served = 0
        self.uncertain = False
        self.pick = pick or (lambda: True)
        self.pos = ("gate", "Disabled", "waitEnabled", None)

    def gone(self, b):
        """the peer has closed / sent garbage: the socket branch of poll is ready"""
        if b in ("close", "garbage"):
            return True
        lim = life_serve_limit(b)
        return lim is not None and not lim[1] and self.served >= lim[0]

    def next_behaviour(self):
        if len(self.behaviours) > 1:
            return self.behaviours.pop(0)
        return self.behaviours[0]

    def advance(self, phase, b=None):
        for _ in range(200):
            if phase == "finished":
                return ("done",)
            if phase == "afterDisable":
                return ("gate", "Disabled", "waitEnabled", None)
            if phase == "waitEnabled":
                if self.enabled:
                    self.cur = self.next_behaviour()
                    return ("gate", "Connecting", "connect", None)
                if not self.queue:
                    return ("idle", "waitEnabled", None) if self.handles else ("gate", "Shutdown", "finished", None)
                c = self.queue.pop(0)
                if c == "E":
                    self.enabled = True
                elif c == "S":
                    return ("gate", "Shutdown", "finished", None)
                continue
            if phase in ("connect", "failFor"):
                if self.queue:
                    c = self.queue.pop(0)
                    if c == "D":
                        self.enabled = False
                        phase = "afterDisable"
                    elif c == "S":
                        return ("gate", "Shutdown", "finished", None)
                    continue
                if not self.handles:
                    return ("gate", "Shutdown", "finished", None)
                if phase == "failFor":
                    phase = "waitEnabled"
                    continue
                b = self.cur
                if b in LIFE_FAILS:
                    self.wait_ms += min(min(self.rmin, self.rmax) * 2 ** min(self.fails, 20), self.rmax)
                    self.fails += 1
                    return ("gate", "WaitFail", "failFor", None)
                self.fails = 0
                return ("gate", "Connected", "sessionStart", b)
            if phase == "sessionStart":
                self.tcount = 0
                self.served = 0
                phase = "session"
                continue
            if phase == "session":
                if self.gone(b):
                    if not self.queue and self.handles:
                        return ("gate", "WaitDisc", "failFor", None)
                    # the race: EOF / garbage against the command queue (or the loss of all handles)
                    self.uncertain = True
                    if self.pick():
                        return ("gate", "WaitDisc", "failFor", None)
                    if not self.queue:
                        return ("gate", "Shutdown", "finished", None)
                    c = self.queue.pop(0)
                    if c == "D":
                        self.enabled = False
                        phase = "afterDisable"
                    elif c == "S":
                        return ("gate", "Shutdown", "finished", None)
                    elif c == "R":
                        return ("gate", "WaitDisc", "failFor", None)
                    continue
                if not self.queue:
                    return ("idle", "session", b) if self.handles else ("gate", "Shutdown", "finished", None)
                c = self.queue.pop(0)
                if c == "D":
                    self.enabled = False
                    phase = "afterDisable"
                elif c == "S":
                    return ("gate", "Shutdown", "finished", None)
                elif c == "R":
                    lim = life_serve_limit(b)
                    if b == "silent":
                        self.tcount += 1
                        if self.maxto and self.tcount >= self.maxto:
                            return ("gate", "WaitDisc", "failFor", None)
                    elif lim is not None and lim[1] and self.served >= lim[0]:
                        return ("gate", "WaitDisc", "failFor", None)
                    else:
                        self.tcount = 0
                        self.served += 1
                continue
        return ("done",)

    def stop(self, acts):
        if self.pos[0] == "done":
            if "X" in acts:
                self.handles = False
            return
        for a in acts:
            if not self.handles:
                break
            if a == "X":
                self.handles = False
            else:
                self.queue.append(a)
        if self.pos[0] == "gate":
            self.pos = self.advance(self.pos[2], self.pos[3])
        else:
            self.pos = self.advance(self.pos[1], self.pos[2])


def life_allowed(sim, tls=False):
    """(max number of actions, allowed alphabet) at the current stop; `L` stands for L0..L3
    (set_decode_level), allowed wherever the other actions are"""
    if not sim.handles:
        return 0, []
    if sim.pos[0] == "done":
        # on the handles of the ended task
        return (1 if sim.uncertain else 3), ["E", "D", "S", "X", "R", "R", "L"]
    if sim.pos[0] == "idle" or sim.uncertain:
        return 1, ["E", "D", "S", "X", "R", "L"]
    if sim.pos[1] == "Connected" and sim.pos[3] == "close" and tls:
        return 0, []        # TLS: how the lost stream fails a request in flight is not modelled
    if sim.pos[1] == "Shutdown":
        return 2, ["E", "D", "S", "X", "R", "R", "L"]
    return 3, ["E", "D", "S", "X", "R", "R", "L"]


def life_case(r, behaviours, maxto, nstops, rmin=30, rmax=120, choose=None, tls=False, lweight=2, after=0, max_idle=4):
    """behaviours / stops may use the `x*n` shorthand; `tls`: the TLS client (behaviours out of
    refuse hsclose hsgarbage hscert serve close); `lweight`: weight of L among the random actions;
    `after`: number of stops generated for the handles of the ended task; `max_idle`: the script
    ends before the stop that would be its (max_idle+1)-th idle period (450 ms each; the harness
    appends two more stops), or earlier if the announced delays have used up the time"""
    sim = LifeSim(behaviours, maxto, pick=lambda: r.chance(1, 2), rmin=rmin, rmax=rmax)
    stops = []
    idles = 0
    for k in range(nstops + after):
        if sim.pos[0] == "idle":
            idles += 1
            # budget of a case: < 3 s (two more stops are appended by the harness)
            if idles > max_idle or 450 * (idles + 2) + sim.wait_ms > 2850:
                break
        if sim.pos[0] == "done":
            if after <= 0:
                break
            after -= 1
        elif k >= nstops:
            break
        mx, alpha = life_allowed(sim, tls)
        acts = LIFE_RANDOM if choose is None else choose(k, mx, alpha)
        if acts == LIFE_RANDOM:
            acts = []
            n = 0
            if mx:
                # enable early so that most scripts get past the disabled state
                if k == 0 and r.chance(5, 6):
                    acts = ["E"]
                    n = -1
                else:
                    n = r.pick([0, 0, 1, 1, 1, 2, 3])
            if n >= 0:
                n = min(n, mx)
                weights = [a for a in alpha for _ in range({"E": 3, "D": 2, "S": 1, "X": 1, "R": 5, "L": lweight}[a])]
                acts = [r.pick(weights) for _ in range(n)]
                acts = [f"L{r.below(4)}" if a == "L" else a for a in acts]
        if acts is None:
            return None
        stops.append("+".join(acts) if acts else "-")
        sim.stop(acts)
    # run-length encode repeated stops (`-*600`): long failure runs stay readable
    packed = []
    for st in stops:
        if packed and packed[-1][0] == st:
            packed[-1][1] += 1
        else:
            packed.append([st, 1])
    stops = [st if k == 1 else (f"{st}*{k}" if k >= 8 else ",".join([st] * k)) for st, k in packed]
    return f"life r{rmin}.{rmax} m{maxto} t100 {'tls:' if tls else ''}{'/'.join(behaviours)} {','.join(stops) if stops else '-'}"


def life_script(seq, then_random=False):
    """`choose` callback of life_case that plays a fixed list of stops (one list of actions per
    stop; afterwards empty stops, or random ones with `then_random`); a stop the schedule cannot
    force is replaced by an empty one"""
    def choose(k, mx, al):
        if k >= len(seq) and then_random:
            return LIFE_RANDOM
        a = seq[k] if k < len(seq) else []
        if len(a) > mx or any(x[:1] not in al for x in a):
            return []
        return list(a)
    return choose


def gen_life(r, n, tier):
    beh = ["refuse", "close", "garbage", "silent", "serve"]
    # fixed scenarios: every environment fault, then recovery
    for b in beh:
        yield life_case(r, [b, "serve"], 2, 5, choose=lambda k, mx, al: ["E"] if k == 0 else (["R"] if mx and k in (2, 3, 4) else []))
    yield "life r30.120 m0 t100 refuse/refuse/refuse/refuse/serve E,-,-,-,-,-,-,-,-,R"
    yield "life r20.20 m0 t100 refuse/refuse/serve E,-,-,-,-,-,R"
    yield "life r50.40 m0 t100 refuse/refuse/serve E,-,-,-,-,-,R"
    yield "life r30.120 m1 t100 silent/serve E,-,-,R,-,-,-,R"
    # C14 at task level: the sequence restarts at min after ANY successful connection, however
    # that connection ends (disable, peer close, garbage, timeout limit)
    yield "life r20.160 m0 t100 refuse/refuse/serve/refuse/refuse/serve E,-,-,-,-,-,-,D,E,-,-,-,-"
    yield "life r20.160 m0 t100 refuse/refuse/close/refuse/refuse/serve E,-,-,-,-,-,-,-,-,-,-,-"
    yield "life r20.160 m0 t100 refuse/refuse/garbage/refuse/refuse/serve E,-,-,-,-,-,-,-,-,-,-,-"
    yield "life r20.160 m1 t100 refuse/refuse/silent/refuse/refuse/serve E,-,-,-,-,-,-,R,-,-,-,-,-,-"
    yield "life r20.50 m0 t100 refuse/refuse/refuse/refuse/serve E,-,-,-,-,-,-,-,-,-"
    yield "life r30.120 m0 t100 serve -,S"
    yield "life r30.120 m0 t100 serve X"
    yield "life r30.120 m0 t100 serve E+D+E+D"
    # C13: a disable that arrives during a wait state is announced, also when an enable follows it
    yield "life r30.120 m0 t100 refuse/serve E,-,D+E,-,-,-"
    yield "life r30.120 m0 t100 close/serve E,-,-,D+E,-,-,-"
    yield "life r200.200 m0 t100 refuse/serve E,-,-,D,-"
    # C13: set_decode_level is a setting like any other: while the channel is disabled (initially,
    # after a disable, behind a redundant disable, next to requests) it must not make the task dial
    yield "life r30.120 m0 t100 serve L1,-,E,-,-,R"
    yield "life r30.120 m0 t100 serve L2+L0,L3+R,D+L1,-"
    yield "life r30.120 m0 t100 serve E,-,-,D,-,L3,R,L0,E,-,-,R"
    yield "life r30.120 m0 t100 refuse/serve E,-,D,-,L1,D+L2,-,E,-,-"
    yield "life r30.120 m0 t100 serve E+L2,L1,L0+R,L3,R,D+L1+E,-,-,R"
    yield "life r30.120 m2 t100 silent/serve E,-,-,R,L1,R,-,-,-,R"
    yield "life r30.120 m0 t100 serve L1,S"
    yield "life r30.120 m0 t100 serve D+L3+R,X"
    # C14 with a TLS client: a TCP connect that succeeds does not restart the delay sequence, only
    # a completed handshake does; a failed handshake is a failed attempt like a refused connect
    yield "life r10.80 m0 t100 tls:hsclose/hsclose/hsclose/hsclose/hsclose/serve E,-*11,R"
    yield "life r10.80 m0 t100 tls:hsgarbage/hsgarbage/hsgarbage/serve E,-*7,R"
    yield "life r10.80 m0 t100 tls:hscert/hscert/hscert/serve E,-*7,R"
    yield "life r10.80 m0 t100 tls:hsclose/refuse/hsgarbage/close/hscert/hsclose/serve E,-*14,R"
    yield "life r20.160 m0 t100 tls:hsclose/hsgarbage/serve/hsclose/hscert/serve E,-,-,-,-,-,-,D,E,-,-,-,-,-,R"
    yield "life r10.40 m0 t100 tls:refuse/hsclose/refuse/hsclose/serve E,-,R,-,R,-,R,-,-,-,R"
    yield "life r30.120 m0 t100 tls:hsclose/serve E,-,D,-,E,-,-,L2,R"
    yield "life r30.120 m0 t100 tls:serve L1,E,-,R,R,S"
    yield "life r30.120 m0 t100 tls:hsgarbage E,-,-,X"
    # a zero minimum delay is still a wait state: after a lost connection WaitAfterDisconnect(0) is
    # announced before the next attempt (no user action during the zero-length waits: they would race)
    yield "life r0.50 m0 t100 close/serve E,-,-,-,-,R"
    yield "life r0.50 m0 t100 garbage/close/serve E,-,-,-,-,-,-,-,R"
    yield "life r0.0 m0 t100 serve1/serve E,-,-,R,-,-,-,-,R"
    yield "life r0.80 m0 t100 refuse/close/refuse/serve E,-,-,-,-,-,-,-,-,R"
    # long failure runs (>= 300 attempts): nothing that counts attempts may wrap
    yield "life r1.8 m0 t100 refuse E,-*598"
    yield "life r1.2 m0 t100 refuse*300/serve/refuse E,-*600,-,R,D,E,-,-,-,-"
    yield "life r1.4 m0 t100 tls:hsclose*270/serve E,-*540,-,R"
    yield "life r0.0 m0 t100 refuse E,-*1400"
    # C13: after the task has ended every handle reports shutdown - stops after `Shutdown`
    yield "life r30.120 m0 t100 serve S,-,R+E+D,L1+S+R,R,X,R"
    yield "life r30.120 m0 t100 serve E,-,-,R,S,R,R+R+R,E+R+D,L3+R"
    yield "life r30.120 m0 t100 refuse E,-,S,-,R+L2+R,D+E+S"
    yield "life r30.120 m0 t100 silent E,-,-,R+S,R,-,R+R,S+X+R"
    yield "life r30.120 m0 t100 serve E,-,X,R,E"
    yield "life r30.120 m0 t100 serve R+S+R,R,E+R,R+X,R"
    # C13: an open connection is closed before the next state is announced, whatever ends the
    # session (disable, shutdown, dropped handles, peer close / garbage, timeout limit)
    yield "life r30.120 m0 t100 serve E,-,-,D,E,-,-,S"
    yield "life r30.120 m0 t100 silent E,-,-,X"
    yield "life r30.120 m1 t100 silent/garbage/close/serve E,-,-,R,-*8,D"
    yield "life r30.120 m0 t100 serve E,-,R+D+R,-,E,-,D+E"
    yield "life r30.120 m0 t100 tls:serve E,-,-,R,D,E,-,-,X"
    yield "life r30.120 m0 t100 tls:close/serve E,-*6,R,S"
    # C13: a command queued at the `Connected` gate races the peer's EOF / garbage (select! in
    # ClientLoop::poll): both resolutions are admitted
    yield "life r30.120 m0 t100 close/serve E,-,R,-,-,-"
    yield "life r30.120 m0 t100 garbage/serve E,-,R+R,-,-,-"
    yield "life r30.120 m0 t100 close/serve E,-,D,-,-"
    yield "life r30.120 m0 t100 garbage/close E,-,L1+S,-"
    yield "life r30.120 m0 t100 close E,-,X"
    yield "life r30.120 m0 t100 garbage/serve E,-,E+L2+R,-,-,R"
    yield "life r30.120 m0 t100 close/garbage/serve E,-,D+E,-,-,R+D,-,-"
    # C13/C14: the connection is lost in the middle of a session: WaitAfterDisconnect(min), the
    # request in flight fails with the transport error, the queued ones fail fast afterwards
    yield "life r30.120 m0 t100 serve2w/serve E,-,R+R+R,-,-,R"
    yield "life r30.120 m0 t100 serve1w/serve E,-,-,R,R,R,-,-,R"
    yield "life r30.120 m0 t100 serve0w/serve E,-,-,R,-,-,R"
    yield "life r30.120 m0 t100 serve1/serve E,-,-,R,-,-,R"
    yield "life r30.120 m0 t100 serve2/serve E,-,R+R,-,-,-,R"
    yield "life r30.120 m0 t100 serve1/serve E,-,R+R+R,-,-,-"
    yield "life r20.160 m0 t100 refuse/refuse/serve1w/refuse/refuse/serve E,-*5,R+R,-*6,R"
    yield "life r20.160 m0 t100 refuse/serve1/refuse/refuse/serve E,-,-,-,-,R,-*6,R"
    if tier == "thorough":
        # exhaustive: every action sequence of length <= 4 (one action per stop) for each single fault
        alphabet = [[], ["E"], ["D"], ["S"], ["X"], ["R"]]
        for b in beh:
            for seq in itertools.product(alphabet, repeat=4):
                ok = [True]

                def choose(k, mx, al, seq=seq, ok=ok):
                    a = seq[k] if k < len(seq) else []
                    if a and (mx == 0 or a[0] not in al):
                        ok[0] = False
                        return []
                    return a
                c = life_case(r, [b, "serve"], 2, 4, choose=choose)
                if ok[0] and c:
                    yield c
        # ... every such sequence over {none, enable, disable, request, set decode level} that
        # contains a decode-level change (the three peers that differ in where commands are read)
        alphabet = [[], ["E"], ["D"], ["R"], ["L1"]]
        for b in ["refuse", "silent", "serve"]:
            for seq in itertools.product(alphabet, repeat=4):
                if ["L1"] not in seq:
                    continue
                ok = [True]

                def choose(k, mx, al, seq=seq, ok=ok):
                    a = seq[k] if k < len(seq) else []
                    if a and (mx == 0 or a[0][:1] not in al):
                        ok[0] = False
                        return []
                    return a
                c = life_case(r, [b, "serve"], 2, 4, choose=choose)
                if ok[0] and c:
                    yield c
        # ... and, TLS client, every sequence of length <= 3 for a failed handshake then recovery
        alphabet = [[], ["E"], ["D"], ["S"], ["X"], ["R"]]
        for seq in itertools.product(alphabet, repeat=3):
            ok = [True]

            def choose(k, mx, al, seq=seq, ok=ok):
                a = seq[k] if k < len(seq) else []
                if a and (mx == 0 or a[0] not in al):
                    ok[0] = False
                    return []
                return a
            c = life_case(r, ["hsclose", "serve"], 2, 3, choose=choose, tls=True)
            if ok[0] and c:
                yield c
    tls_fail = ["refuse", "hsclose", "hsclose", "hsgarbage", "hscert"]
    beh2 = beh + ["serve", "serve0", "serve1", "serve2", "serve0w", "serve1w", "serve2w"]
    for _ in range(n):
        kind = r.below(29)
        if kind >= 20:
            kind += 100
        elif kind >= 11 and r.chance(1, 4):
            kind = 100 + r.below(9)
        if kind >= 100:
            kind -= 100
            if kind < 3:
                # stops after the end of the task: reach `Shutdown` early, then act on the handles
                bs = [r.pick(beh2) for _ in range(r.rng(1, 2))]
                seq = []
                if r.chance(2, 3):
                    seq += [["E"]] + [r.pick([[], [], ["R"]]) for _ in range(r.rng(0, 3))]
                seq += [r.pick([["S"], ["X"], ["R", "S"], ["S", "R"], ["D", "S"]])]
                c = life_case(r, bs, r.pick([0, 1]), len(seq) + 3, after=r.rng(1, 4),
                              choose=life_script(seq, then_random=True))
            elif kind < 6:
                # the peer's EOF / garbage races commands queued at the `Connected` gate
                first = [r.pick(["close", "garbage", "serve0"])]
                bs = ["refuse"] * r.below(2) + first + [r.pick(beh2) for _ in range(r.rng(0, 2))]
                racing = [r.pick(["R", "R", "E", "D", "S", "X", f"L{r.below(4)}"]) for _ in range(r.rng(1, 3))]
                seq = [["E"]] + ([[], []] if bs[0] == "refuse" else []) + [[], racing]
                c = life_case(r, bs, r.pick([0, 1]), len(seq) + r.rng(1, 4), choose=life_script(seq, then_random=r.chance(1, 2)),
                              rmin=r.pick([10, 30]), rmax=r.pick([60, 120]), after=r.below(2))
            else:
                # the connection is lost in the middle of a session, with requests in flight / queued
                k = r.below(3)
                first = f"serve{k}" + r.pick(["", "w", "w"])
                bs = ["refuse"] * r.below(2) + [first] + [r.pick(beh2) for _ in range(r.rng(0, 2))]
                seq = [["E"]] + ([[], []] if bs[0] == "refuse" else []) + [[]]
                if r.chance(1, 2):
                    seq += [["R"] * r.rng(1, 3)]                      # queued at the `Connected` gate
                else:
                    seq += [[]] + [["R"] for _ in range(r.rng(1, 3))]  # one by one, while idle
                seq += [r.pick([[], [], ["R"], ["D"], ["R", "R"]]) for _ in range(r.rng(1, 3))]
                c = life_case(r, bs, 0, len(seq) + r.rng(0, 2), choose=life_script(seq),
                              rmin=r.pick([10, 30]), rmax=r.pick([60, 120]))
        elif kind < 11:
            # plain TCP, random script (decode-level changes included)
            nb = r.rng(1, 4)
            bs = [r.pick(beh2 if r.chance(1, 2) else beh) for _ in range(nb)]
            c = life_case(r, bs, r.pick([0, 0, 1, 2, 3]), r.rng(2, 10),
                          rmin=r.pick([10, 30, 50]), rmax=r.pick([10, 60, 120, 200]),
                          lweight=r.pick([1, 2, 6]), after=r.pick([0, 0, 1, 2]))
        elif kind < 14:
            # decode-level changes around the disabled state
            bs = [r.pick(beh) for _ in range(r.rng(1, 3))]
            seq = []
            if r.chance(1, 2):
                seq += [["E"]] + [[] for _ in range(r.rng(1, 3))] + [["D"]]
            seq += [r.pick([[f"L{r.below(4)}"], [f"L{r.below(4)}", "R"], ["D", f"L{r.below(4)}"], [f"L{r.below(4)}", f"L{r.below(4)}"], []])
                    for _ in range(r.rng(1, 3))]
            seq += [r.pick([["E"], ["R"], ["S"], ["X"], []]) for _ in range(r.rng(0, 3))]
            c = life_case(r, bs, r.pick([0, 1, 2]), len(seq) + r.rng(0, 2), choose=life_script(seq))
        elif kind < 18:
            # TLS client: runs of failed handshakes / refused connects between successful connections
            bs = []
            for _ in range(r.rng(1, 2)):
                bs += [r.pick(tls_fail) for _ in range(r.rng(1, 4))] + [r.pick(["serve", "serve", "close"])]
            if r.chance(1, 3):
                bs += [r.pick(tls_fail)]
            if r.chance(2, 3):
                # enable, then watch (a request now and then): the delays are what matters
                seq = [["E"]] + [r.pick([[], [], [], ["R"]]) for _ in range(2 * len(bs) + 2)]
                c = life_case(r, bs, 0, len(seq), rmin=r.pick([5, 10, 20]), rmax=r.pick([40, 80, 160]),
                              choose=life_script(seq), tls=True)
            else:
                c = life_case(r, bs, r.pick([0, 0, 2]), r.rng(3, 10), rmin=r.pick([10, 30]),
                              rmax=r.pick([60, 120]), tls=True)
        else:
            # long failure runs, then (sometimes) success and a restart at the minimum
            tls = r.chance(1, 3)
            rmax = r.pick([1, 2, 2, 4]) if not tls else r.pick([1, 2])
            k = r.rng(257, 330) if rmax > 1 else r.rng(300, 520)
            fail = r.pick(["hsclose", "hsgarbage"]) if tls else "refuse"
            if r.chance(1, 2):
                bs, seq = [fail], [["E"]] + [[] for _ in range(2 * k)]
            else:
                bs = [f"{fail}*{k}", "serve", fail]
                seq = [["E"]] + [[] for _ in range(2 * k + 1)] + [["R"], ["D"], ["E"], [], [], []]
            c = life_case(r, bs, 0, len(seq), rmin=r.pick([0, 1]) if rmax == 1 else 1, rmax=rmax,
                          choose=life_script(seq), tls=tls)
        if c:
            yield c


def gen_net(r, n, tier):
    """net <tcp|tls|tlsa>[6] m<max sessions> <filter> <script>: the production server tasks on loopback.
    Steps: c<k>.<src> connect, q<k> request/reply, P<k>.<n> n pipelined requests (125 registers each)
    written before any reply is read, g<k> garbage, x<k> close, B<k1>/<k2>/.. close all at the same
    instant, W<n>.<src> n peers that connect and leave at once, p<k> probe, L / S / H set decode level /
    shutdown / drop the handle."""
    v4 = ["127.0.0.1", "127.0.0.2", "127.1.2.3", "127.0.0.9"]
    lo = "127.0.0.1"

    def conns(a, b):
        return [f"c{k}.{lo}" for k in range(a, b + 1)]

    def probes(a, b):
        return [f"p{k}" for k in range(a, b + 1)]
    # C16: every variant x matching / non-matching filters x peers
    filters = ["any", "x127.0.0.1", "x127.0.0.2", "s127.0.0.1/127.1.2.3", "s",
               "w" + hx(b"127.*.*.*"), "w" + hx(b"127.0.0.*"), "w" + hx(b"*.*.*.1"), "w" + hx(b"127.1.*.3"),
               "w" + hx(b"10.*.*.*"), "x::1"]
    for variant in ("tcp", "tls", "tlsa"):
        for f in filters:
            steps = ",".join(f"c{i + 1}.{p}" for i, p in enumerate(v4))
            yield f"net {variant} m8 {f} {steps}" + (",q1,q2,q3,q4" if variant == "tcp" else "")
        for f in ("any", "x::1", "x127.0.0.1", "w" + hx(b"*.*.*.*"), "s::1/127.0.0.1"):
            yield f"net {variant}6 m8 {f} c1.::1" + (",q1" if variant == "tcp" else "")
    # C16: a BURST of connections that are all queued on the listener before the server accepts the
    # first: every one of them is filtered on its own (matching and non-matching peers interleaved)
    for variant in ("tcp", "tls", "tlsa"):
        for f in ("x127.0.0.1", "s127.0.0.1/127.1.2.3", "w" + hx(b"127.0.0.*"), "x127.0.0.9", "any"):
            burst = "C1.127.0.0.1/2.127.0.0.2/3.127.0.0.1/4.127.0.0.9/5.127.1.2.3/6.127.0.0.2"
            yield f"net {variant} m8 {f} {burst}" + (",q1,q2,q3,q4,q5,q6" if variant == "tcp" else ",p1,p2,p3,p4,p5,p6")
            yield f"net {variant} m8 {f} C1.127.0.0.2/2.127.0.0.1,C3.127.0.0.9/4.127.0.0.9/5.127.0.0.1" + (",q1,q2,q3,q4,q5" if variant == "tcp" else ",p1,p2,p3,p4,p5")
    # C15: session limit, eviction order, isolation, shutdown
    for m in range(0, 5):
        steps = []
        for k in range(1, m + 4):
            steps.append(f"c{k}.127.0.0.1")
            steps += [f"p{j}" for j in range(1, k + 1)]
        steps += [f"q{k}" for k in range(1, m + 4)]
        yield f"net tcp m{m} any {','.join(steps)}"
    yield "net tcp m3 any c1.127.0.0.1,c2.127.0.0.1,c3.127.0.0.1,g2,p1,p3,q1,q3,x1,p3,q3,c4.127.0.0.1,c5.127.0.0.1,p3,q3,q4,q5"
    yield "net tcp m3 any c1.127.0.0.1,c2.127.0.0.1,L,q1,q2,S,p1,p2,c3.127.0.0.1,L,S"
    yield "net tcp m3 any c1.127.0.0.1,c2.127.0.0.1,q1,H,p1,p2,c3.127.0.0.1"
    yield "net tls m2 any c1.127.0.0.1,c2.127.0.0.1,c3.127.0.0.1,p1,p2,p3,S,p2,p3"
    # a session that ended (peer close, garbage, at any position) must free its slot
    for m in (1, 2, 3):
        for victim in range(1, m + 1):
            for how in ("g", "x"):
                steps = [f"c{k}.127.0.0.1" for k in range(1, m + 1)] + [f"{how}{victim}"]
                steps += [f"c{m + 1}.127.0.0.1"] + [f"p{k}" for k in range(1, m + 2)]
                steps += [f"c{m + 2}.127.0.0.1"] + [f"p{k}" for k in range(1, m + 3)] + [f"q{m + 2}"]
                yield f"net tcp m{m} any {','.join(steps)}"
    # C01 over a real socket: a peer that pipelines requests and reads the replies late. 20000
    # replies of 259 bytes (5 MB) overrun the server's send buffer (tcp_wmem max 4 MB) and the
    # peer's receive window, so that the server's writes meet a full socket; every reply must
    # still arrive whole and in order (0.3 s).
    yield f"net tcp m2 any c1.{lo},P1.20000,q1"
    yield f"net tcp m2 any c1.{lo},c2.{lo},P2.300,P1.20000,q2,q1,c3.{lo},P1.5,P2.40,P3.1,q3"
    yield f"net tcp m1 x127.0.0.2 c1.{lo},P1.3,c2.127.0.0.2,P2.3,P7.1,S,P2.3"
    if tier == "thorough":
        yield f"net tcp m2 any c1.{lo},P1.40000,P1.20000,q1"
        yield f"net tcp6 m2 any c1.::1,P1.20000,q1"
        for cnt in (1, 2, 63, 64, 65, 253, 1000, 5000, 12000, 16000, 17000, 65535):
            yield f"net tcp m2 any c1.{lo},P1.{cnt},q1"
    # C15: a handshake that is still pending (nobody speaks TLS here) must keep listening to
    # eviction / shutdown / handle drop after decode-level changes
    for variant in ("tls", "tlsa"):
        yield f"net {variant} m2 any c1.{lo},c2.{lo},L,c3.{lo},p1,p2,p3,L,L,c4.{lo},p2,p3,p4,S,p3,p4"
        yield f"net {variant} m1 any c1.{lo},L,p1,H,p1"
        yield f"net {variant} m3 any c1.{lo},L,c2.{lo},L,g1,c3.{lo},c4.{lo},p2,c5.{lo},p2,p3,S,p3,p4,p5"
    # C15: a burst of sessions ending at the same instant (more than the 8 slots of the
    # close-notification channel): every one of them must free its slot — the survivor (the
    # oldest session) stays when exactly as many peers connect again, and goes with the next one
    def burst(variant, m, keep):
        steps = conns(1, m) + ["B" + "/".join(str(k) for k in range(keep + 1, m + 1))]
        steps += conns(m + 1, 2 * m - keep) + probes(1, keep) + conns(2 * m - keep + 1, 2 * m - keep + 1)
        return f"net {variant} m{m} any {','.join(steps + probes(1, keep))}"
    yield burst("tcp", 12, 1)
    yield burst("tls", 10, 1)
    if tier == "thorough":
        for m, keep in ((9, 1), (10, 1), (11, 2), (16, 1), (16, 3), (20, 2)):
            yield burst("tcp", m, keep)
        yield burst("tlsa", 12, 1)
    # C15: churn — peers that come and go must leave nothing behind, however many of them
    # (session ids are never re-used: 65532 peers, then 9 more on a server for 8: the oldest of
    # these goes, not the one whose id would be smallest after a 16-bit wrap; 3.7 s)
    yield f"net tcp m6 any c1.{lo},c2.{lo},W300.{lo},p1,p2,q1," + ",".join(conns(3, 6) + ["p1", f"c7.{lo}", "p1", "p2", "q2"])
    yield f"net tls m6 x127.0.0.1 c1.{lo},W40.127.0.0.2,W40.{lo},p1," + ",".join(conns(2, 6) + ["p1", f"c7.{lo}", "p1", "p2"])
    yield f"net tcp m8 any W65532.{lo}," + ",".join(conns(1, 9) + probes(1, 9))
    if tier == "thorough":
        yield f"net tcp m8 any c1.{lo},W65535.{lo}," + ",".join(conns(2, 8) + ["p1", f"c9.{lo}"] + probes(1, 9))
        yield f"net tls m8 any W65530.{lo}," + ",".join(conns(1, 9) + probes(1, 9))
    # a request cut in two segments with a decode-level change (and traffic of another session) in
    # between: commands never disturb a transaction (C15 isolation, C20)
    yield "net tcp m3 any c1.127.0.0.1,c2.127.0.0.1,h1,L,t1,q2,h2,L,q1,t2,p1,p2"
    yield "net tcp m2 any c1.127.0.0.1,h1,L,L,t1,q1"
    # a failed TLS handshake (garbage instead of a ClientHello) must free its slot like any other end
    for variant in ("tls", "tlsa"):
        for m in (2, 3):
            for victim in range(2, m + 1):
                steps = [f"c{k}.127.0.0.1" for k in range(1, m + 1)] + [f"g{victim}"]
                steps += [f"c{m + 1}.127.0.0.1"] + [f"p{k}" for k in range(1, m + 2)]
                steps += [f"c{m + 2}.127.0.0.1"] + [f"p{k}" for k in range(1, m + 3)]
                yield f"net {variant} m{m} any {','.join(steps)}"
    # a stalled peer (requests written, nothing read: its session sits in a blocked write and does not
    # poll its command queue) must not disturb the server: commands are still taken, other peers are
    # accepted and served, eviction and shutdown work (finding F17)
    for variant_m in (4, 2):
        yield f"net tcp m{variant_m} any c1.127.0.0.1,Z1.20000," + ",".join(["L"] * 11) + ",c2.127.0.0.1,q2,L,c3.127.0.0.1,q3,q2,S,p2,p3"
    yield "net tcp m4 any c1.127.0.0.1,c2.127.0.0.1,Z1.20000,Z2.20000," + ",".join(["L"] * 20) + ",c3.127.0.0.1,q3,H,p3"
    yield "net tcp m1 any c1.127.0.0.1,Z1.20000," + ",".join(["L"] * 9) + ",c2.127.0.0.1,q2,c3.127.0.0.1,q3,p2"
    # decode-level changes (more than a session's command queue holds) while the session is blocked in a
    # write: the outstanding replies all arrive, in order, and the session goes on serving afterwards
    for l in (9, 14):
        yield f"net tcp m2 any c1.127.0.0.1,c2.127.0.0.1,P1.20000.{l},q1,q2,L,q1"
    # a shutdown requested while the server's command queue (8 slots) is full or nearly full, with the
    # handle kept alive, must not be lost: the task ends, connections are refused afterwards
    for k in (0, 7, 8):
        yield f"net tcp m2 any J{k},c1.127.0.0.1,p1"
    yield "net tls m2 any J8,c1.127.0.0.1"
    for _ in range(n):
        variant = r.pick(["tcp", "tcp", "tcp", "tls", "tlsa"])
        m = r.pick([0, 1, 2, 3, 4])
        f = r.pick(filters[:10])
        steps = []
        nc = 0
        for _ in range(r.rng(2, 14)):
            k = r.below(10)
            if k < 4 or nc == 0:
                nc += 1
                steps.append(f"c{nc}.{r.pick(v4)}")
            elif k < 6 and variant == "tcp":
                if r.chance(1, 4):
                    steps.append(f"P{r.rng(1, nc)}.{r.pick([1, 2, 7, 64, 300])}")
                else:
                    steps.append(f"q{r.rng(1, nc)}")
            elif k < 7:
                steps.append(f"p{r.rng(1, nc)}")
            elif k < 8:
                steps.append(f"g{r.rng(1, nc)}")
            elif k < 9:
                if nc >= 2 and r.chance(1, 4):
                    a = r.rng(1, nc)
                    b = r.rng(1, nc)
                    steps.append(f"B{a}/{b}" if a != b else f"B{a}")
                else:
                    steps.append(f"x{r.rng(1, nc)}")
            else:
                steps.append(r.pick(["L", "L", "S", "H"]))
        steps += [f"p{j}" for j in range(1, nc + 1)]
        yield f"net {variant} m{m} {f} {','.join(steps)}"


def gen_tls(r, n, tier):
    """the C09 grid; quick = a reduced grid, thorough = the full grid
    tls srv <min> <ca|ss> <authz> <peer versions> <peer cert[+extra]|none> [<expected ss cert>]
    tls srvseq … <peer>,<peer>,… [<expected ss cert>]: successive peers on one server, results joined by ' ; '
    tls cli <min> <ca|ss|cad|ssd> <peer versions> <server cert> <server name|-> [<expected ss cert>]"""
    srv_ca = ["cli_operator", "cli_viewer", "cli_norole", "cli_wrongca", "cli_expired", "cli_future", "none",
              # a second certificate after the end entity: the role is that of the end entity
              "cli_operator+cli_viewer", "cli_viewer+cli_operator", "cli_norole+cli_operator", "cli_operator+ss_a"]
    srv_ss = [("ss_b", "ss_b"), ("ss_a", "ss_a"), ("ss_impostor", "ss_b"), ("ss_expired", "ss_expired"),
              ("ss_future", "ss_future"), ("ss_norole", "ss_norole"), ("none", "ss_b"), ("ss_a+ss_b", "ss_a")]
    cli_ca = [("srv_ok", "test.com"), ("srv_wrongname", "test.com"), ("srv_cnonly", "test.com"),
              ("srv_wrongca", "test.com"), ("srv_expired", "test.com"), ("srv_future", "test.com"),
              ("srv_wrongname", "-"), ("srv_ok", "-"), ("srv_wrongca", "-"),
              # expected names that are IP literals
              ("srv_ok", "127.0.0.1"), ("srv_ip", "127.0.0.1"), ("srv_ip", "10.1.2.3"), ("srv_ip", "test.com"),
              ("srv_wrongname", "::1")]
    cli_ss = [("ss_b", "ss_b"), ("ss_impostor", "ss_b"), ("ss_expired", "ss_expired"), ("ss_future", "ss_future")]
    cases = []
    for mn in ("12", "13"):
        for vers in ("12", "13", "both"):
            for authz in ("0", "1"):
                for c in srv_ca:
                    cases.append(f"tls srv {mn} ca {authz} {vers} {c}")
                for c, e in srv_ss:
                    cases.append(f"tls srv {mn} ss {authz} {vers} {c} {e}")
            for c, name in cli_ca:
                cases.append(f"tls cli {mn} ca {vers} {c} {name}")
            for c, e in cli_ss:
                cases.append(f"tls cli {mn} ss {vers} {c} - {e}")
            # a server that sends a second certificate after its own: irrelevant under an authority,
            # refused by the self-signed verifier (which accepts exactly one certificate)
            cases.append(f"tls cli {mn} ca {vers} srv_ok+cli_viewer test.com")
            cases.append(f"tls cli {mn} ca {vers} srv_wrongname+srv_ok test.com")
            cases.append(f"tls cli {mn} ss {vers} ss_b+ss_a - ss_b")
            # the deprecated constructor `TlsClientConfig::new` and a DNS host name
            for c, name in (("srv_ok", "test.com"), ("srv_wrongname", "test.com"), ("srv_ip", "127.0.0.1")):
                cases.append(f"tls cli {mn} cad {vers} {c} {name}")
            for c, e in (("ss_b", "ss_b"), ("ss_impostor", "ss_b")):
                cases.append(f"tls cli {mn} ssd {vers} {c} - {e}")
    # several peers, one after the other, on ONE server instance: every admission is decided on the
    # certificate of the connection at hand (the role of an earlier peer must not stick, a role-less
    # peer must not slip in behind an authorized one)
    seqs = ["cli_operator,cli_viewer", "cli_operator,cli_norole", "cli_norole,cli_operator",
            "cli_viewer,cli_operator,cli_viewer", "cli_viewer,cli_norole,cli_operator"]
    seq_cases = [f"tls srvseq 12 ca 1 both {q}" for q in seqs]
    seq_cases.append("tls srvseq 12 ca 0 both cli_operator,cli_norole,cli_viewer")
    seq_cases.append("tls srvseq 12 ss 1 both ss_a,ss_b,ss_a ss_a")
    # a peer that connects and stays silent in its handshake must not keep valid peers from being served
    seq_cases.append("tls srvseq 12 ca 1 both silent,cli_operator,silent,cli_viewer")
    seq_cases.append("tls srvseq 13 ca 0 13 silent,silent,cli_operator")
    if tier == "thorough":
        for c in cases:
            yield c
        for c in seq_cases:
            yield c
        for mn, vers in (("12", "12"), ("13", "13"), ("13", "both")):
            for q in seqs + ["cli_operator,cli_wrongca,cli_viewer", "cli_expired,cli_viewer,none,cli_operator",
                             "cli_operator+cli_viewer,cli_viewer+cli_operator,cli_norole+cli_operator"]:
                yield f"tls srvseq {mn} ca 1 {vers} {q}"
        yield "tls srvseq 13 ca 1 12 cli_operator,cli_viewer"
        yield "tls srvseq 12 ss 1 both ss_norole,ss_a,ss_norole ss_norole"
        yield "tls srvseq 12 ss 0 13 ss_b,ss_impostor,ss_b ss_b"
        return
    for c in seq_cases:
        yield c
    # quick: all version cells with valid certificates + every certificate kind once per role
    for c in cases:
        tok = c.split(" ")
        valid = tok[-1] in ("cli_operator",) or (tok[1] == "cli" and tok[5] == "srv_ok" and tok[6] == "test.com") \
            or (tok[1] == "srv" and tok[3] == "ss" and tok[6] == "ss_a") \
            or (tok[1] == "cli" and tok[3] in ("ss", "ssd") and tok[5] == "ss_b" and tok[-1] == "ss_b")
        if valid:
            yield c
    for c in cases:
        tok = c.split(" ")
        if tok[2] == "12" and ((tok[1] == "srv" and tok[5] == "both") or (tok[1] == "cli" and tok[4] == "both")):
            special = "+" in c or (tok[1] == "cli" and (tok[6][0].isdigit() or ":" in tok[6])) or tok[3] in ("cad", "ssd")
            if r.chance(1, 2) or special:
                yield c


def gen_pty_srv(r, n, tier):
    """the production RTU server task on a pseudo-terminal: whole-session scripts taken from the RTU
    server generator (no commands, lowest decode level); expected value = the model of the in-memory
    session (tools/pty_xlate.py)"""
    cands = []
    for line in gen_srv(r, 4 * n, tier, True, False):
        tok = line.split(" ")
        if tok[3] != "-" or "!" in tok[5] or tok[5] == "-":
            continue
        steps = tok[5].split(",")
        if len(steps) > 12 or sum(len(x) for x in steps) > 1200:
            continue
        cands.append(f"pty srv {tok[4]} {tok[5]}")
    # each case costs real time: a random sample of the exhaustive prefaces and of the sessions
    for _ in range(min(n, len(cands))):
        yield cands.pop(r.below(len(cands)))


def gen_pty_cli(r, n, tier):
    """the production RTU client task on a pseudo-terminal: one to three requests, each answered by
    the genuine reply, an exception, a perturbed reply, or not at all"""
    for _ in range(n):
        steps = []
        if r.chance(1, 8):
            steps.append(r.pick(["B19200.8.E.1.N", "B115200.8.N.2.N", "B1200.8.O.1.N"]))
        for j in range(r.rng(1, 3)):
            kind, unit, args, d = cl_request(r, valid=r.chance(5, 6))
            while kind in ("wC", "wR"):
                kind, unit, args, d = cl_request(r, valid=True)
            answered = r.chance(4, 5)
            steps.append(f"q{kind}.{unit}.{1000 if answered else 100}.{args}")
            if not answered:
                steps.append("a-")
                continue
            pdu = reply_variant(r, d) if r.chance(1, 3) else good_reply(r, d)
            if not rtu_response_delimitable(pdu):
                pdu = good_reply(r, d)
            f = rtu(unit, pdu)
            if r.chance(1, 8):
                f = xor_at(f, [8 * (len(f) - 1 - r.below(2)) + r.below(8)])     # a bit error in the CRC
            if r.chance(1, 5) and len(f) > 3:
                kcut = r.rng(1, len(f) - 1)
                steps += [f"a{hx(f[:kcut])}", "~20", f"a{hx(f[kcut:])}"]
            else:
                steps.append(f"a{hx(f)}")
        yield f"pty cli {','.join(steps)}"


def gen_role(r, n, tier):
    """C09: the production role extraction on certificates carrying 0, 1, 2 or 3 ModbusRole extensions
    (built by tools/der.py from the minted certificates; the openssl CLI cannot mint duplicates)"""
    import os
    import der
    cdir = os.path.join(os.path.dirname(os.path.abspath(__file__)), "..", "certs")
    bases = [der.pem_to_der(os.path.join(cdir, f"{c}_cert.pem")) for c in ("cli_operator", "cli_norole", "srv_ok", "ss_a")]
    names = [b"operator", b"", "r\u00f6le".encode(), b"x" * 40, b"a b", b"viewer", b"admin"]
    lists = [[]] + [[a] for a in names] + [[a, b] for a in names[:4] for b in names[:4]] + [[b"a", b"b", b"c"], [b"", b"", b""]]
    for base in bases:
        for roles in lists:
            for where in ("start", "end"):
                tok = "/".join("r" + x.hex() for x in roles) if roles else "-"
                yield f"role {tok} {der.rebuild(base, roles, where).hex()}"
        yield f"role - {der.rebuild(base, [], drop_all_extensions=True).hex()}"
        yield f"role - {base.hex()}" if base is not bases[0] and base is not bases[3] else f"role r{b'operator'.hex()} {base.hex()}"


ALL_LEVELS = [f"d{a}{f}{p}" for a in range(4) for f in range(3) for p in range(3)]


# ---------------------------------------------------------------- client suites (cl)

def pat_bits(n, seed):
    return [(i * 7 + seed) % 3 == 0 for i in range(n)]


def pat_regs(n, seed):
    return [(i * 31 + seed) % 65536 for i in range(n)]


def pack_bits(bits):
    out = bytearray()
    for i in range(0, len(bits), 8):
        b = 0
        for k, v in enumerate(bits[i:i + 8]):
            if v:
                b |= 1 << k
        out.append(b)
    return bytes(out)


def cl_request(r, valid=True):
    """(step args after `<h>.<rid>.`, descriptor) for a random client request"""
    kind = r.pick(["rc", "rd", "rh", "ri", "wc", "wr", "wC", "wR"])
    unit = r.pick([1, 1, 0, 42, 247, 255, r.below(256)])
    if kind in ("rc", "rd", "rh", "ri"):
        lim = 2000 if kind in ("rc", "rd") else 125
        if valid:
            cnt = r.pick([1, 2, 7, 8, 9, 16, 17, lim - 1, lim]) if r.chance(1, 2) else r.rng(1, lim)
            start = r.pick([0, 1, 65535 - cnt + 1, 65536 - cnt - 1 if cnt < 65535 else 0, r.below(65536 - cnt + 1)])
            start = max(0, min(start, 65536 - cnt))
        else:
            cnt = r.pick([0, lim + 1, lim + 2, 65535, r.below(65536)])
            start = r.pick([0, 65535, 65534, r.below(65536)])
        return kind, unit, f"{start}.{cnt}", dict(kind=kind, start=start, count=cnt)
    if kind == "wc":
        idx, v = r.pick([0, 1, 65535, r.below(65536)]), r.below(2)
        return kind, unit, f"{idx}.{v}", dict(kind=kind, idx=idx, val=v)
    if kind == "wr":
        idx, v = r.pick([0, 1, 65535, r.below(65536)]), r.pick([0, 1, 255, 256, 65535, r.below(65536)])
        return kind, unit, f"{idx}.{v}", dict(kind=kind, idx=idx, val=v)
    lim = 1968 if kind == "wC" else 123
    if valid:
        cnt = r.pick([1, 2, 7, 8, 9, 15, 16, 17, lim - 1, lim]) if r.chance(1, 2) else r.rng(1, lim)
        start = max(0, min(r.pick([0, 1, 65536 - cnt, r.below(65536)]), 65536 - cnt))
    else:
        cnt = r.pick([0, lim + 1, lim + 2, lim + 8, lim + 9, 2008, 2009, 2040, 2041, 65535, 65536, 65537]) if kind == "wC" else \
            r.pick([0, lim + 1, lim + 2, 126, 127, 128, 65535, 65536])
        start = r.pick([0, 1, 65535, 65534])
    seed = r.below(50)
    if cnt <= 24 and r.chance(1, 2):
        if kind == "wC":
            bits = [r.chance(1, 2) for _ in range(cnt)]
            spec = "".join("1" if b else "0" for b in bits) if cnt else "-"
            vals = bits
        else:
            vals = [r.below(65536) for _ in range(cnt)]
            spec = "/".join(str(v) for v in vals) if cnt else "-"
    else:
        spec = f"n{cnt}s{seed}"
        vals = pat_bits(cnt, seed) if kind == "wC" else pat_regs(cnt, seed)
    return kind, unit, f"{start}.{spec}", dict(kind=kind, start=start, count=cnt, vals=vals)


FC_OF = {"rc": 1, "rd": 2, "rh": 3, "ri": 4, "wc": 5, "wr": 6, "wC": 15, "wR": 16}


def good_reply(r, d):
    fc = FC_OF[d["kind"]]
    k = d["kind"]
    if k in ("rc", "rd"):
        nb = (d["count"] + 7) // 8
        return bytes([fc, nb & 0xFF]) + r.bytes(nb)
    if k in ("rh", "ri"):
        return bytes([fc, (2 * d["count"]) & 0xFF]) + r.bytes(2 * d["count"])
    if k == "wc":
        return bytes([fc]) + be16(d["idx"]) + (b"\xff\x00" if d["val"] else b"\x00\x00")
    if k == "wr":
        return bytes([fc]) + be16(d["idx"]) + be16(d["val"])
    return bytes([fc]) + be16(d["start"]) + be16(d["count"])


def reply_variant(r, d):
    """a reply PDU: the genuine one, an exception, or a perturbation of the genuine one"""
    good = good_reply(r, d)
    fc = good[0]
    k = r.below(16)
    if k < 5:
        return good
    if k == 5:
        return bytes([fc | 0x80, r.pick([1, 2, 3, 4, 5, 6, 8, 10, 11, 0, 7, 9, 12, 255, r.below(256)])])
    if k == 6:
        return bytes([fc | 0x80]) + r.bytes(r.pick([0, 2, 3]))
    if k == 7:
        return bytes([r.pick([0, 1, 2, 3, 4, 5, 6, 15, 16, 0x80, 0x81, 0x8F, 0x90, fc ^ 0x80 ^ 1, r.below(256)])]) + good[1:]
    if k == 8:
        return good[:r.rng(0, max(0, len(good) - 1))]
    if k == 9:
        return (good + r.bytes(r.rng(1, 3)))[:253]
    if k == 10 and len(good) >= 2:
        g = bytearray(good)
        g[1] = r.pick([0, 1, 255, (g[1] + 1) & 0xFF, r.below(256)])       # byte count / first echo byte
        return bytes(g)
    if k == 11 and d["kind"] == "wc":
        return good[:3] + be16(r.pick([1, 0xFF, 0xFF01, 0x00FF, 0xFFFF, 0x0100, r.below(65536)]))
    if k == 12 and len(good) >= 3:
        g = bytearray(good)
        i = r.rng(1, len(g) - 1)
        g[i] ^= 1 << r.below(8)
        return bytes(g)
    if k == 13 and d["kind"] in ("wC", "wR"):
        return good[:1] + be16(r.pick([65535, 0, d["start"]])) + be16(r.pick([0, 2, 65535]))
    if k == 14:
        return b""
    return r.bytes(r.rng(1, 12))


def cl_frame(framing, tx, unit, pdu):
    return mbap(tx, unit, pdu) if framing == "t" else rtu(unit, pdu)


def gen_cl_enc(r, n, tier):
    """C03: what the client transmits (or refuses) for every kind of request; TCP and RTU"""
    styles = ["R", "R", "C", "T"]
    # boundary lattice through the public constructors
    for kind, lim in (("rc", 2000), ("rd", 2000), ("rh", 125), ("ri", 125)):
        for cnt in (0, 1, lim - 1, lim, lim + 1, 65535):
            for start in {0, 1, max(0, 65535 - cnt), max(0, 65536 - cnt), 65535}:
                for fr in ("t", "r"):
                    yield f"cl {fr} d000 q16 m0 N,E,R0.a.{kind}.7.50.{start}.{cnt},A60"
                yield f"cl t d000 q16 m0 N,E,Q0.a.{kind}.7.50.{start}.{cnt},A60"
    # two connections of one channel: the transaction id sequence continues after a reconnect
    for ev in ("Xe", "Xf", "X" + hx(bytes([0, 0, 0, 1, 0, 3, 1, 1, 0]))):
        yield f"cl t d000 q16 m0 N,E,R0.a.rh.1.50.0.1,{ev},N,R0.b.rh.1.50.0.1,A60,R0.c.rh.1.50.0.1,A60"
    yield "cl t d000 q16 m1 N,E,R0.a.rh.1.50.0.1,A50,N,R0.b.rh.1.50.0.1,A60"
    # a failing transport write (BrokenPipe / Interrupted): nothing of the request is transmitted - in
    # particular it is not written a second time -, the session ends, the next connection starts clean
    for w in ("W", "Wi"):
        for fr in ("t", "r"):
            yield f"cl {fr} d000 q16 m0 N,E,{w},R0.a.rh.1.50.0.1,A60,N,R0.b.rh.1.50.0.1,A60"
            yield f"cl {fr} d000 q16 m0 N,E,R0.a.wr.1.50.9.4660,A60,{w},R0.b.wC.1.50.3.10110,N,R0.c.rh.1.50.0.1,A60"
    for kind, args in (("wc", "9.1"), ("wc", "65535.0"), ("wr", "9.4660"), ("wr", "65535.65535")):
        for fr in ("t", "r"):
            yield f"cl {fr} d000 q16 m0 N,E,R0.a.{kind}.7.50.{args},A60"
    for kind, lim in (("wC", 1968), ("wR", 123)):
        for cnt in (0, 1, lim - 1, lim, lim + 1, lim + 8, lim + 9, 2008, 2009, 2040, 2041, 65535, 65536):
            if kind == "wR" and cnt > 200 and cnt not in (65535, 65536):
                continue
            for start in {0, 1, min(65535, max(0, 65536 - cnt)), min(65535, max(0, 65537 - cnt)), 65535}:
                for fr in ("t", "r"):
                    yield f"cl {fr} d000 q16 m0 N,E,R0.a.{kind}.7.50.{start}.n{cnt}s3,A60"
    for _ in range(n):
        fr = r.pick(["t", "t", "r"])
        steps = ["N", "E"]
        for j in range(r.rng(1, 4)):
            kind, unit, args, _d = cl_request(r, valid=r.chance(2, 3))
            style = r.pick(styles)
            steps.append(f"{style}0.r{j}.{kind}.{unit}.50.{args}")
            steps.append("A60")
        yield f"cl {fr} {decode_tok(r)} q16 m0 {','.join(steps)}"


def gen_cl_resp(r, n, tier):
    """C04: what a request completes with for every kind of reply PDU"""
    # every function byte x short bodies, for one request of each kind
    fixed = [("rc", "0.8", dict(kind="rc", start=0, count=8)), ("rh", "5.2", dict(kind="rh", start=5, count=2)),
             ("wc", "9.1", dict(kind="wc", idx=9, val=1)), ("wr", "9.4660", dict(kind="wr", idx=9, val=4660)),
             ("wC", "3.10110", dict(kind="wC", start=3, count=5, vals=[1, 0, 1, 1, 0])),
             ("wR", "3.1/2/3", dict(kind="wR", start=3, count=3, vals=[1, 2, 3]))]
    bodies = [b"", b"\x01", b"\x01\x55", b"\x02\x55", b"\x04\x00\x01\x00\x02", b"\x00\x09\xff\x00",
              b"\x00\x09\x12\x34", b"\x00\x03\x00\x05", b"\x00\x03\x00\x03", b"\x00\x09\xff\x01", b"\x02"]
    fbytes = range(256) if tier == "thorough" else list(range(0, 24)) + list(range(0x80, 0x98)) + [0xFF]
    # a frame with a foreign transaction id (late reply, unsolicited) in front of a long reply, in ONE
    # delivery: the reply starts at a non-zero offset of the 260-byte receive buffer and crosses its end
    regs = bytes((7 * i + 3) % 256 for i in range(250))
    for cnt in (125, 100, 60):
        reply = mbap(0, 1, bytes([3, 2 * cnt]) + regs[:2 * cnt])
        for stale in (mbap(9, 1, bytes([3, 2, 0, 1])), mbap(9, 1, bytes([3, 200]) + regs[50:250]), mbap(9, 1, bytes([1, 1, 5])) * 3,
                      mbap(9, 1, bytes([0x83, 2])) + mbap(8, 1, bytes([3, 100]) + regs[:100])):
            yield f"cl t d000 q16 m0 N,E,R0.a.rh.1.50.0.{cnt},X{hx(stale + reply)},A60"
            yield f"cl t d000 q16 m0 N,E,R0.a.rh.1.50.0.{cnt},X{hx(stale)},X{hx(reply[:100])},X{hx(reply[100:])},A60"
    for kind, args, d in fixed:
        for fb in fbytes:
            for body in bodies:
                yield f"cl t d000 q16 m0 N,E,R0.a.{kind}.1.50.{args},X{hx(mbap(0, 1, bytes([fb]) + body))},A60"
        # every exception code
        for code in range(256):
            yield f"cl t d000 q16 m0 N,E,R0.a.{kind}.1.50.{args},X{hx(mbap(0, 1, bytes([FC_OF[kind] | 0x80, code])))},A60"
        # genuine reply at every length offset
        good = good_reply(r, d)
        for ln in range(0, len(good) + 4):
            pdu = (good + bytes(8))[:ln]
            for fr in ("t", "r"):
                if fr == "r" and not rtu_response_delimitable(pdu):
                    continue
                yield f"cl {fr} d000 q16 m0 N,E,R0.a.{kind}.1.50.{args},X{hx(cl_frame(fr, 0, 1, pdu))},A60"
    for _ in range(n):
        fr = r.pick(["t", "t", "t", "r"])
        steps = ["N", "E"]
        tx = 0
        for j in range(r.rng(1, 3)):
            kind, unit, args, d = cl_request(r, valid=True)
            style = r.pick(["R", "R", "C", "T"])
            steps.append(f"{style}0.r{j}.{kind}.{unit}.50.{args}")
            pdu = reply_variant(r, d)
            if fr == "r" and not rtu_response_delimitable(pdu):
                pdu = good_reply(r, d)
            f = cl_frame(fr, tx, unit, pdu)
            if r.chance(1, 4) and len(f) > 2:
                k = r.rng(1, len(f) - 1)
                steps += [f"X{hx(f[:k])}", f"X{hx(f[k:])}"]
            else:
                steps.append(f"X{hx(f)}")
            steps.append("A60")
            tx += 1
        yield f"cl {fr} {decode_tok(r)} q16 m0 {','.join(steps)}"


DRIVER_BIN = __import__("os").path.join(__import__("os").path.dirname(__import__("os").path.abspath(__file__)),
                                        "..", "lean", ".lake", "build", "bin", "rodbus_model")


def model_states(lines):
    """ask the Lean driver (`clq`) for the model state after each script prefix"""
    import subprocess
    p = subprocess.run([DRIVER_BIN], input="\n".join(lines) + "\n", capture_output=True, text=True)
    out = []
    for l in p.stdout.splitlines():
        d = {}
        for kv in l.split(" ## ")[0].split(" "):
            if "=" in kv:
                k, v = kv.split("=", 1)
                d[k] = v
        out.append(d)
    if len(out) != len(lines):
        raise RuntimeError("driver did not answer every clq line (is lean/.lake/build/bin/rodbus_model built?)")
    return out


class ClScript:
    def __init__(self, r, framing, q, m, level):
        self.fr, self.q, self.m, self.level = framing, q, m, level
        self.steps = []
        self.reqs = {}          # rid -> descriptor
        self.nrid = 0
        self.nhandles = 1
        self.done = False

    def header(self, word="cl"):
        return f"{word} {self.fr} {self.level} q{self.q} m{self.m}"

    def line(self, word="cl"):
        return f"{self.header(word)} {','.join(self.steps) if self.steps else '-'}"


def cl_next_step(r, sc, st, focus):
    """choose the next step of a script from the model state `st`"""
    alive = st.get("alive") == "1"
    phase, pos = st.get("phase", "none"), st.get("pos", "none")
    queue = int(st.get("queue", "0") or 0)
    handles = st.get("handles", "1")
    live = [i for i, c in enumerate(handles) if c == "1"]
    h = r.pick(live) if live else 0
    now = int(st.get("now", "0") or 0)

    def submit(style=None, valid=True, timeout=None):
        kind, unit, args, d = cl_request(r, valid=valid)
        if sc.fr == "r" and unit == 0:
            unit = 1
        sc.nrid += 1
        rid = f"r{sc.nrid}"
        sc.reqs[rid] = dict(d, unit=unit)
        style = style or r.pick(["R", "R", "R", "C", "T"])
        if style in ("R", "C") and queue + 2 >= sc.q:
            style = "T"          # async senders must never wait for capacity (outside the model)
        t = timeout if timeout is not None else r.pick([20, 50, 50, 100, 1000])
        return f"{style}{h}.{rid}.{kind}.{unit}.{t}.{args}"

    # `Channel::shutdown` is `send().await`: with a full queue the sender waits, and its command
    # becomes visible to the task only after the task has yielded - an interleaving the model (which
    # makes a waiting sender's entry visible at once) does not have; the steer keeps away from it, as
    # it does for requests
    shut = f"S{h}" if queue < sc.q else "A1"

    if not alive:
        sc.done = r.chance(1, 2)
        return submit(style=r.pick(["R", "C", "T"])) if live else "A5"
    if not live:
        return r.pick(["A50", "N", "V", "F20"])
    if phase == "none":
        k = r.below(10)
        if k < 5:
            return "N"
        if k < 6:
            return "V"
        if k < 7:
            return f"F{r.pick([0, 10, 30])}" if focus != "det" else f"F{r.pick([10, 30])}"
        if k < 8:
            return r.pick([f"E{h}", f"D{h}"])
        return submit()
    if phase in ("waitEnabled", "failFor"):
        k = r.below(8)
        if k < 3:
            return submit()
        if k < 5:
            return r.pick([f"E{h}", f"E{h}", f"D{h}"])
        if k < 6:
            return f"A{r.pick([5, 10, 30, 40])}"
        if k < 7:
            return r.pick([shut, f"H-{h}", "H+", "K", f"L{r.pick(ALL_LEVELS)}"])
        return "A1"
    # in a session
    if st.get("enabled") == "0" and r.chance(1, 2):
        return f"E{h}"
    if pos == "inflight":
        rid = st.get("rid")
        d = sc.reqs.get(rid)
        tx = int(st.get("tx", "0"))
        deadline = int(st.get("deadline", "0"))
        k = r.below(24)
        if d is None:
            return "A10"
        unit = d["unit"]

        def fr(t, pdu):
            if sc.fr == "r" and not rtu_response_delimitable(pdu):
                pdu = good_reply(r, d)
            return cl_frame(sc.fr, t % 65536, unit, pdu)
        if k < 7:       # the genuine (or perturbed) reply, whole
            f = fr(tx, reply_variant(r, d) if r.chance(1, 3) else good_reply(r, d))
            if sc.fr == "r" and r.chance(1, 6):
                # transmission error: one or two flipped bits / a short burst in the framed reply
                f = xor_at(f, sorted({r.below(8 * len(f)) for _ in range(r.pick([1, 1, 2]))}))
            return "X" + hx(f)
        if k < 10:      # split reply
            f = fr(tx, good_reply(r, d))
            cut = r.rng(1, max(1, len(f) - 1))
            return "X" + hx(f[:cut]) if len(f) > 1 else "X" + hx(f)
        if k < 12:      # stale / future / duplicate ids (MBAP); on RTU any frame matches
            return "X" + hx(fr(tx + r.pick([-1, -2, 1, 2, 65535, 32768]), good_reply(r, d)))
        if k < 13:      # reply + unsolicited frame with the next id in one delivery (finding F16)
            return "X" + hx(fr(tx, good_reply(r, d)) + fr(tx + 1, good_reply(r, d)))
        if k < 14:      # reply + first bytes of another frame
            f2 = fr(tx + 1, good_reply(r, d))
            return "X" + hx(fr(tx, good_reply(r, d)) + f2[:r.rng(1, max(1, len(f2) - 1))])
        if k < 15:
            return "X" + hx(r.bytes(r.rng(1, 9)))
        if k < 17:      # around the deadline
            rem = max(0, deadline - now)
            return f"A{max(0, rem + r.pick([-1, 0, 0, 1]))}" if rem < 100000 else "A50"
        if k < 18:
            return r.pick(["Xe", "Xf"])
        if k < 20:
            return submit()
        if k < 21:
            return r.pick([f"D{h}", shut, f"L{r.pick(ALL_LEVELS)}"])
        if k < 22:
            return r.pick([f"H-{h}", "H+", "K"])
        return f"A{r.pick([1, 5, 10])}"
    # idle in a session
    k = r.below(16)
    if k < 8:
        return submit(valid=r.chance(5, 6))
    if k < 9:
        return "W"
    if k < 10:      # unsolicited frame while idle
        nt = int(st.get("nexttx", "0"))
        pdu = bytes([3, 2, 0x12, 0x34])
        return "X" + hx(cl_frame(sc.fr, r.pick([nt, nt, nt + 1, 0]) % 65536, 1, pdu))
    if k < 11:
        return "X" + hx(r.bytes(r.rng(1, 12)))
    if k < 12:
        return r.pick(["Xe", "Xf"])
    if k < 13:
        return r.pick([f"D{h}", shut, f"L{r.pick(ALL_LEVELS)}"])
    if k < 14:
        return r.pick([f"H-{h}", "H+", "K"])
    return f"A{r.pick([1, 10, 60])}"


def gen_cl_task(r, n, tier, focus="mix"):
    """C10-C12 (and the client role of C05/C07/C20): event scripts for the client task, steered by
    the model state after each prefix (lock-step rounds through the Lean driver, `clq`)"""
    max_steps = 24 if tier == "thorough" else 14
    if focus == "mix":
        # exhaustive: every way the first request can end, followed by a second request - shows,
        # by behaviour, which request errors end the session (SessionError::from_request_err)
        good = mbap(0, 1, bytes([1, 1, 0x55]))
        events = ["Xe", "Xf", "W", "Wi", "X" + hx(bytes([0, 0, 0, 1, 0, 4, 1, 1, 1, 0x55])), "X" + hx(bytes([0, 0, 0, 0, 0, 0, 1])),
                  "X" + hx(bytes([0, 0, 0, 0, 1, 0, 1])), "A50", "X" + hx(mbap(0, 1, bytes([0x81, 2]))),
                  "X" + hx(mbap(0, 1, bytes([3, 2, 0, 1]))), "X" + hx(mbap(9, 1, bytes([1, 1, 0x55]))), "X" + hx(good),
                  "X" + hx(mbap(0, 1, bytes([1, 2, 0x55])))]
        # a connection that dies in the middle of a frame must not leave parser state behind: the
        # first frame of the next session of the same channel is parsed afresh (RTU and MBAP)
        for frm in ("r", "t"):
            good1 = cl_frame(frm, 0, 1, bytes([3, 2, 0, 7]))
            good2 = cl_frame(frm, 1, 1, bytes([3, 2, 0, 9]))
            for cut in range(1, len(good1)):
                for how in ("Xe", "Xf"):
                    yield (f"cl {frm} d000 q16 m0 N,E0,R0.a.rh.1.100.0.1,X{hx(good1[:cut])},{how},"
                           f"N,R0.b.rh.1.100.0.1,X{hx(good2)},A200")
        for ev in events:
            for m in (0, 1):
                first = "R0.a.rc.1.50.0.8" if ev not in ("W", "Wi") else ev + ",R0.a.rc.1.50.0.8"
                tail = ev if ev not in ("W", "Wi") else "A1"
                yield f"cl t d000 q16 m{m} N,E0,{first},{tail},R0.b.rc.1.50.0.8,A60,A60"
    scripts = []
    for i in range(n):
        fr = "r" if r.chance(1, 4) else "t"
        q = r.pick([1, 2, 4, 16, 16, 16])
        m = r.pick([0, 0, 1, 2, 3])
        sc = ClScript(r, fr, q, m, decode_tok(r))
        if r.chance(1, 6):
            sc.m = f"{m}i{r.pick([65535, 65534, 65533, 65530])}"      # start next to the 65535 -> 0 wrap
        sc.steps = ["N", "E0"] if r.chance(3, 4) else []
        scripts.append(sc)
    for _ in range(max_steps):
        active = [sc for sc in scripts if not sc.done]
        if not active:
            break
        states = model_states([sc.line("clq") for sc in active])
        for sc, st in zip(active, states):
            sc.steps.append(cl_next_step(r, sc, st, focus))
            if len(sc.steps) >= max_steps or (len(sc.steps) > 4 and r.chance(1, 12)):
                sc.done = True
    for sc in scripts:
        # let outstanding deadlines pass so that everything that can complete does
        sc.steps.append("A1100")
        yield sc.line()


def gen_cl_block_fixed():
    """a shutdown request that has to wait for queue capacity (`Channel::shutdown` is `send().await`)
    must not be lost: once the queue drains the task ends with `shutdown`; order of events forced"""
    rep = lambda tx, v: "X" + hx(mbap(tx, 1, bytes([3, 2]) + be16(v)))
    for q in (1, 2):
        reqs = [f"R0.b{j}.rh.1.1000.{j}.1" for j in range(q + 1)]      # one in flight + q queued
        steps = ["N", "E0"] + reqs + ["S0"] + [rep(j, 100 + j) for j in range(q + 1)] + ["A10", "A10"]
        yield f"cl t d000 q{q} m0 {','.join(steps)}"
        # the same with callback-style requests and a timeout instead of the first reply
        reqs = [f"C0.b{j}.rh.1.50.{j}.1" for j in range(q + 1)]
        steps = ["N", "E0"] + reqs + ["S0", "A50"] + [rep(j, 7) for j in range(1, q + 1)] + ["A60", "A10"]
        yield f"cl t d000 q{q} m0 {','.join(steps)}"


def gen_cl_block(r, n, tier):
    """C10: more async submissions than the queue holds (senders wait for capacity): every
    request must still be queued and completed, in order; fixed shape so that the order of
    completions is forced (one reply / one timeout per step)"""
    for c in gen_cl_block_fixed():
        yield c
    for _ in range(n):
        q = r.pick([1, 1, 2, 3])
        k = q + r.rng(2, 4)
        fr = "t"
        steps = ["N", "E0"]
        reqs = []
        for j in range(k):
            style = r.pick(["C", "C", "R"])
            val = r.below(65536)
            timeout = r.pick([50, 1000])
            steps.append(f"{style}0.b{j}.rh.1.{timeout}.{j}.1")
            reqs.append((j, val, timeout))
        for j, val, timeout in reqs:
            if timeout == 1000 or r.chance(1, 2):
                steps.append("X" + hx(mbap(j, 1, bytes([3, 2]) + be16(val))))
            else:
                steps.append(f"A{timeout}")
        steps.append("A1100")
        yield f"cl {fr} {decode_tok(r)} q{q} m0 {','.join(steps)}"


def gen_cl_txwrap(r, n, tier):
    """C11: more than 65536 consecutive requests would be too slow in lock-step; the wrap is
    reached by requests that fail while they are serialised (they consume an id without I/O)"""
    k = 70000 if tier == "thorough" else 0
    if k:
        steps = ["N", "E0"]
        for i in range(k):
            steps.append(f"T0.w{i}.wC.1.50.0.n1969s1")      # consumes a transaction id, nothing sent
        steps += ["R0.z.rh.1.50.0.1", "A60"]
        yield "cl t d000 q4 m0 " + ",".join(steps)
    # the wrap itself with real requests: 3 ids before and after 65535 are covered by theorems


def rtu_response_delimitable(pdu):
    """the RTU response parser derives the same length (so the frame is 'well-framed')"""
    if not pdu:
        return False
    fc = pdu[0]
    if fc & 0x80:
        return len(pdu) == 2
    if fc in (1, 2, 3, 4):
        return len(pdu) >= 2 and len(pdu) == 2 + pdu[1] and len(pdu) <= 253
    if fc in (5, 6, 15, 16):
        return len(pdu) == 5
    return False


def gen_srv_fuzz(r, n, tier):
    """C07: grammar-aware mutations of valid traffic plus raw random bytes, all decode levels,
    followed by a shutdown command (must still be honoured)"""
    for i in range(n):
        rtu_mode = r.chance(1, 2)
        fr = "r" if rtu_mode else "t"
        units, ids, hints = random_units(r, rtu_mode)
        level = ALL_LEVELS[i % len(ALL_LEVELS)] if r.chance(2, 3) else r.pick(["d000", "d322"])
        k = r.below(5)
        if k == 0:
            data = r.bytes(r.rng(1, 600))
        else:
            frames = []
            for _ in range(r.rng(1, 10)):
                unit = r.pick(ids) if ids and r.chance(2, 3) else r.below(256)
                pdu = valid_request(r) if r.chance(1, 2) else malformed_request(r)
                if rtu_mode:
                    f = rtu(unit, pdu, bad_crc=r.chance(1, 10))
                else:
                    f = mbap(r.below(65536), unit, pdu,
                             proto=0 if r.chance(9, 10) else r.below(65536),
                             length=None if r.chance(9, 10) else r.pick([0, 1, 254, 255, 256, 65535, len(pdu), len(pdu) + 2]))
                if r.chance(1, 6):
                    j = r.below(len(f))
                    f = f[:j] + bytes([f[j] ^ (1 << r.below(8))]) + f[j + 1:]
                if r.chance(1, 10):
                    f = f[:r.below(len(f) + 1)]
                frames.append(f)
            data = b"".join(frames)
        steps = [hx(c) for c in chunkings(r, data)]
        if r.chance(1, 4) and steps:
            steps.insert(r.below(len(steps) + 1), "!" + r.pick(ALL_LEVELS))
        steps.append("!s")
        auth = auth_tok(r) if r.chance(1, 5) else "-"
        yield f"srv {fr} {level} {auth} {units} {','.join(steps)}"


def gen_rdr_fuzz(r, n, tier):
    for i in range(n):
        kind = r.pick(["t", "q", "p"])
        level = ALL_LEVELS[i % len(ALL_LEVELS)]
        if r.chance(1, 3):
            data = r.bytes(r.rng(1, 700))
        elif kind == "t":
            data = mbap_stream(r, r.rng(1, 20))
        else:
            data = b"".join(rtu_frames(r, kind, r.rng(1, 10)))
            if r.chance(1, 2) and data:
                j = r.below(len(data))
                data = data[:j] + bytes([data[j] ^ (1 << r.below(8))]) + data[j + 1:]
        yield f"rdr {kind} {level} {chunks_tok(chunkings(r, data))}"


def decode_variants(r, case):
    """C20: the same case at the lowest level, the highest level, a random level, and with
    level changes injected into the script"""
    tok = case.split(" ")
    if tok[0] == "srv":
        di, si, mk = 2, 5, (lambda l: "!" + l)
    elif tok[0] == "cl":
        di, si, mk = 2, 5, (lambda l: "L" + l)
    elif tok[0] == "rdr":
        di, si, mk = 2, None, None
    else:
        return [case]
    out = []
    for lvl in ("d000", "d322", r.pick(ALL_LEVELS)):
        t = list(tok)
        t[di] = lvl
        out.append(" ".join(t))
    if si is not None and tok[si] != "-":
        steps = tok[si].split(",")
        for _ in range(2):
            st = list(steps)
            for _ in range(r.rng(1, 3)):
                st.insert(r.below(len(st) + 1), mk(r.pick(ALL_LEVELS)))
            t = list(tok)
            t[di] = r.pick(["d000", "d322"])
            t[si] = ",".join(st)
            out.append(" ".join(t))
        if len(steps) <= 8:
            # short scripts: one level change at EVERY position (the property's quantifier)
            for pos in range(len(steps) + 1):
                st = list(steps)
                st.insert(pos, mk(r.pick(["d322", "d000", "d111"])))
                t = list(tok)
                t[di] = "d000" if pos % 2 else "d322"
                t[si] = ",".join(st)
                out.append(" ".join(t))
    return out


def gen_srv_wfail(r, n, tier):
    """sessions over a transport whose (k+1)-th write fails (`W<k>` leading step): every fault
    position 0..4 for fixed three- and four-request sessions on both framings (incl. requests that
    are not answered: unconfigured unit, broadcast), then random sessions with a random position"""
    units = "1:s0.0.100.3,s2.0.100.5;2:s0.0.50.7,s2.0.50.8"
    for rtu_mode in (False, True):
        fr = "r" if rtu_mode else "t"
        mk = (lambda tx, u, pdu: rtu(u, pdu)) if rtu_mode else mbap
        reqs = [(1, bytes([5, 0, 1, 0xFF, 0])), (9, bytes([1, 0, 0, 0, 8])), (2, bytes([6, 0, 2, 0x12, 0x34])),
                (1, bytes([3, 0, 200, 0, 1])), (1, bytes([16, 0, 3, 0, 1, 2, 0, 9]))]
        if rtu_mode:
            reqs.insert(1, (0, bytes([6, 0, 4, 0, 7])))          # broadcast: executed, never answered
        else:
            reqs.insert(1, (1, bytes([0x63, 1, 2])))             # unknown function: answered with 01
        frames = [hx(mk(10 + i, u, pdu)) for i, (u, pdu) in enumerate(reqs)]
        for k in range(0, len(frames) + 1):
            yield f"srv {fr} d000 - {units} W{k},{','.join(frames)}"
            yield f"srv {fr} d000 - {units} W{k},{''.join(frames)}"
            yield f"srv {fr} d000 - {units} W{k}i,{','.join(frames)}"
            yield f"srv {fr} d000 deny.r {units} W{k},{','.join(frames)}" if not rtu_mode else f"srv {fr} d322 - {units} W{k},{','.join(frames)},!s"
    half = n // 2
    base = list(gen_srv(Rng(r.next(), "a"), half, tier, False))[-half:] + list(gen_srv(Rng(r.next(), "b"), half, tier, True))[-half:]
    for c in base:
        tok = c.split(" ")
        if tok[5] == "-":
            continue
        nsteps = tok[5].count(",") + 1
        k = r.below(min(nsteps, 6) + 1) if r.chance(3, 4) else r.below(3)
        tok[5] = f"W{k}," + tok[5]
        yield " ".join(tok)


def gen_srv_edge(r, n, tier):
    """positions inside the 260-byte receive buffer x cancellation x lock contention:
    (a) k small pipelined requests followed by a long write-multiple; the first delivery ends exactly at
        (or one byte before / after) the end of the receive buffer, then a ChangeDecoding command
        cancels the pending read (select! in run_one), then the rest arrives;
    (b) an application thread holds one unit's handler mutex while a unicast / broadcast write arrives"""
    units = "1:s0.0.300.3,s2.0.300.5;2:s0.0.50.7,s2.0.300.8"
    for rtu_mode in (False, True):
        fr = "r" if rtu_mode else "t"
        mk = (lambda tx, u, pdu: rtu(u, pdu)) if rtu_mode else mbap
        small = lambda i: mk(i, 1, bytes([3]) + be16(i) + be16(1))
        regs = b"".join(be16((977 * i + 11) % 65536) for i in range(123))
        for nregs in (123, 100):
            long = mk(99, 2, bytes([16]) + be16(1) + be16(nregs) + bytes([2 * nregs]) + regs[:2 * nregs])
            for k in range(1, 12):
                data = b"".join(small(i) for i in range(k)) + long + small(50)
                for cut in (259, 260, 261):
                    if cut >= len(data):
                        continue
                    for cmd in ("!d322", "!d000,!d111"):
                        yield f"srv {fr} d000 - {units} {hx(data[:cut])},{cmd},{hx(data[cut:])}"
                    yield f"srv {fr} d000 - {units} {hx(data[:cut])},{hx(data[cut:cut + 1])},!d322,{hx(data[cut + 1:])}"
    # (c) a flooding peer: n complete requests are available at once and a Shutdown command is queued at the
    #     same moment (oracle case: the session must end with most of the flood unread)
    for fr, req in (("t", mbap(1, 1, bytes([3, 0, 2, 0, 2]))), ("r", rtu(1, bytes([3, 0, 2, 0, 2]))),
                    ("t", mbap(1, 1, bytes([6, 0, 2, 0, 9]))), ("t", mbap(1, 9, bytes([3, 0, 2, 0, 2])))):
        for cnt, lvl in ((20000, "d000"), (3000, "d322")):
            yield f"srv {fr} {lvl} - {units} F{cnt}.{hx(req)}"
            # the same with the command sender dropped instead (server handle dropped, session evicted)
            yield f"srv {fr} {lvl} - {units} Fd{cnt}.{hx(req)}"
    # lock contention (real time: 40 ms per case)
    eight_w = [bytes([5, 0, 2, 0xFF, 0]), bytes([6, 0, 2, 0x12, 0x34]), bytes([15, 0, 2, 0, 3, 1, 5]),
               bytes([16, 0, 2, 0, 2, 4, 0, 7, 0, 8])]
    sentinel = hx(rtu(1, bytes([3, 0, 2, 0, 2]))) + "," + hx(rtu(2, bytes([3, 0, 2, 0, 2])))
    for pdu in eight_w:
        for held in (1, 2):
            yield f"srv r d000 - {units} K{held}.40,{hx(rtu(0, pdu))},{sentinel}"
        yield f"srv r d000 - {units} K2.40,{hx(rtu(2, pdu))},{sentinel}"
        yield f"srv t d000 - {units} K1.40,{hx(mbap(3, 1, pdu))},{hx(mbap(4, 1, bytes([3, 0, 2, 0, 2])))}"


def gen_dec_srv(r, n, tier):
    base = list(gen_srv(Rng(r.next(), "a"), n, "quick", False))[-n:] + list(gen_srv(Rng(r.next(), "b"), n, "quick", True))[-n:]
    for c in base:
        for v in decode_variants(r, c):
            yield v


def gen_dec_cl(r, n, tier):
    base = list(gen_cl_task(Rng(r.next(), "a"), n, "quick")) + list(gen_cl_resp(Rng(r.next(), "b"), n // 4, "quick"))[-(n // 4):]
    for c in base:
        # a set-decode command takes a queue slot: only inject where the queue is roomy
        tok = c.split(" ")
        inject = tok[3] == "q16"
        for v in decode_variants(r, c):
            if not inject and v.split(" ")[5] != tok[5]:
                continue
            yield v


def gen_cl_fuzz(r, n, tier):
    """C07, client role: scripts at decode levels cycling through all 36, peers sending mutated
    and random replies"""
    for i, c in enumerate(gen_cl_task(r, n, tier)):
        tok = c.split(" ")
        tok[2] = ALL_LEVELS[i % len(ALL_LEVELS)]
        yield " ".join(tok)


def gen_dec_rdr(r, n, tier):
    base = list(gen_rdr_mbap(Rng(r.next(), "a"), n, "quick"))[-n:] + list(gen_rdr_rtu(Rng(r.next(), "b"), n, "quick"))[-n:]
    for c in base:
        for v in decode_variants(r, c):
            yield v


def gen_slife(r, n, tier):
    """serial client channel: announced port wait delays when every open fails"""
    pairs = [(200, 900), (0, 0), (250, 250), (100, 350), (0, 300), (1, 3), (999, 1000), (500, 100), (300, 10000)]
    for mn, mx in pairs:
        yield f"slife r{mn}.{mx} 6"
    for _ in range(n):
        mn = r.pick([0, 1, 50, 100, 250, 999, r.below(2000)])
        mx = r.pick([mn, mn * 3, r.below(5000), 0, 7 * mn + 13])
        yield f"slife r{mn}.{mx} {r.rng(3, 7)}"


SUITES = {
    "slife": gen_slife,
    "cl_task": gen_cl_task,
    "cl_txwrap": gen_cl_txwrap,
    "cl_block": gen_cl_block,
    "cl_enc": gen_cl_enc,
    "cl_resp": gen_cl_resp,
    "srv_fuzz": gen_srv_fuzz,
    "srv_wfail": gen_srv_wfail,
    "srv_edge": gen_srv_edge,
    "rdr_fuzz": gen_rdr_fuzz,
    "dec_srv": gen_dec_srv,
    "dec_rdr": gen_dec_rdr,
    "dec_cl": gen_dec_cl,
    "cl_fuzz": gen_cl_fuzz,
    "tls": gen_tls,
    "net": gen_net,
    "life": gen_life,
    "retry": gen_retry,
    "trk": gen_trk,
    "flt": gen_flt,
    "fltm": gen_fltm,
    "rdr_rtu": gen_rdr_rtu,
    "range": gen_range,
    "crc": gen_crc,
    "rdr_mbap": gen_rdr_mbap,
    "srv_tcp": lambda r, n, tier: gen_srv(r, n, tier, False),
    "srv_rtu": lambda r, n, tier: gen_srv(r, n, tier, True),
    "srv_auth": lambda r, n, tier: gen_srv(r, n, tier, False, True),
    "role": gen_role,
    "pty_srv": gen_pty_srv,
    "sserver": lambda r, n, tier: ("pty rsrv " + c[len("sserver "):] if c.startswith("sserver ") else c for c in __import__("gen_sserver").gen_sserver(r, n, tier)),
    "sport": lambda r, n, tier: ("pty port " + c[len("sport "):] if c.startswith("sport ") else c for c in __import__("gen_sport").gen_sport(r, n, tier)),
    "pty_cli": gen_pty_cli,
}


def generate(suite, seed, n, tier):
    r = Rng(seed, suite)
    if suite not in SUITES and suite.startswith("ffi_"):
        import gen_ffi          # imports this module: resolved lazily to avoid the cycle
        return list(gen_ffi.FFI_SUITES[suite](r, n, tier))
    return list(SUITES[suite](r, n, tier))


if __name__ == "__main__":
    import sys
    suite, seed, n = sys.argv[1], int(sys.argv[2]), int(sys.argv[3])
    tier = sys.argv[4] if len(sys.argv) > 4 else "quick"
    for line in generate(suite, seed, n, tier):
        print(line)
