import RodbusModel.Model.Tracker
/-
  C15 — Server sessions: bounded, oldest evicted (the `SessionTracker` part; the isolation and
  shutdown parts are stated over the product model below and exercised over loopback).
-/
namespace Rodbus.C15
open Rodbus.Tracker

/-- ids are strictly ascending and all smaller than the next id to be assigned -/
def Sorted (l : List Nat) : Prop := l.Pairwise (· < ·)

def Inv (t : Tracker) : Prop :=
  1 ≤ t.max ∧ t.ids.length ≤ t.max ∧ Sorted t.ids ∧ ∀ i ∈ t.ids, i < t.next

theorem sorted_drop_one {l : List Nat} (h : Sorted l) : Sorted (l.drop 1) :=
  List.Pairwise.sublist (List.drop_sublist 1 l) h

theorem sorted_append_last {l : List Nat} {n : Nat} (h : Sorted l) (hb : ∀ i ∈ l, i < n) :
    Sorted (l ++ [n]) := by
  unfold Sorted
  rw [List.pairwise_append]
  refine ⟨h, List.pairwise_singleton _ _, ?_⟩
  intro a ha b hb'
  simp at hb'
  subst hb'
  exact hb a ha

theorem sorted_filter {l : List Nat} (p : Nat → Bool) (h : Sorted l) : Sorted (l.filter p) :=
  List.Pairwise.filter p h

theorem new_inv (m : Nat) : Inv (new m) := by
  refine ⟨?_, by simp [new], List.Pairwise.nil, by simp [new]⟩
  simp only [new]; split <;> omega

theorem add_ids (t : Tracker) :
    (add t).2.ids = (if t.ids.length ≥ t.max then t.ids.drop 1 else t.ids) ++ [t.next] := rfl

theorem add_inv (t : Tracker) (h : Inv t) : Inv (add t).2 := by
  obtain ⟨h1, h2, h3, h4⟩ := h
  have hmax : (add t).2.max = t.max := rfl
  have hnext : (add t).2.next = t.next + 1 := rfl
  refine ⟨h1, ?_, ?_, ?_⟩
  · rw [add_ids, hmax]
    by_cases hc : t.ids.length ≥ t.max
    · rw [if_pos hc]; simp only [List.length_append, List.length_drop, List.length_singleton]; omega
    · rw [if_neg hc]; simp only [List.length_append, List.length_singleton]; omega
  · rw [add_ids]
    by_cases hc : t.ids.length ≥ t.max
    · rw [if_pos hc]
      exact sorted_append_last (sorted_drop_one h3) (fun i hi => h4 i (List.mem_of_mem_drop hi))
    · rw [if_neg hc]; exact sorted_append_last h3 h4
  · intro i hi
    rw [add_ids] at hi
    rw [hnext]
    rw [List.mem_append] at hi
    rcases hi with hi | hi
    · have hm : i ∈ t.ids := by
        by_cases hc : t.ids.length ≥ t.max
        · rw [if_pos hc] at hi; exact List.mem_of_mem_drop hi
        · rw [if_neg hc] at hi; exact hi
      have := h4 i hm; omega
    · simp at hi; omega

theorem remove_inv (t : Tracker) (id : Nat) (h : Inv t) : Inv (remove t id) := by
  obtain ⟨h1, h2, h3, h4⟩ := h
  refine ⟨h1, ?_, ?_, ?_⟩
  · exact Nat.le_trans (List.length_filter_le _ _) h2
  · exact sorted_filter _ h3
  · intro i hi
    exact h4 i (List.mem_filter.mp hi).1

/-- **tracker_bound**: after every sequence of `add`/`remove` the number of live sessions is at
    most `max(1, maxSessions)` -/
theorem tracker_bound (m : Nat) (ops : List Op) :
    (run (new m) ops).ids.length ≤ (if m = 0 then 1 else m) := by
  have key : ∀ (ops : List Op) (t : Tracker), Inv t → Inv (run t ops) := by
    intro ops
    induction ops with
    | nil => intro t h; exact h
    | cons op ops ih =>
      intro t h
      apply ih
      cases op with
      | add => exact add_inv t h
      | remove id => exact remove_inv t id h
  have h := key ops (new m) (new_inv m)
  have hm : (run (new m) ops).max = (if m = 0 then 1 else m) := by
    have : ∀ (ops : List Op) (t : Tracker), (run t ops).max = t.max := by
      intro ops
      induction ops with
      | nil => intro t; rfl
      | cons op ops ih =>
        intro t
        show (run (step t op) ops).max = t.max
        rw [ih]; cases op <;> rfl
    rw [this]; rfl
  rw [← hm]; exact h.2.1

/-- **evicts_oldest**: when the tracker is full, `add` removes exactly the smallest id (the
    earliest-added live session, because ids only grow) and nothing else; otherwise nothing is
    removed. The new session always gets a fresh id. -/
theorem evicts_oldest (t : Tracker) (h : Inv t) :
    (add t).2.ids = (if t.ids.length ≥ t.max then t.ids.drop 1 else t.ids) ++ [t.next] ∧
    (∀ i ∈ t.ids, i < t.next) ∧
    (t.ids.length ≥ t.max → ∀ i ∈ t.ids.drop 1, t.ids.head? = some i ∨ ∃ o, t.ids.head? = some o ∧ o < i) := by
  refine ⟨rfl, h.2.2.2, ?_⟩
  intro _ i hi
  obtain ⟨_, _, h3, _⟩ := h
  cases hl : t.ids with
  | nil => simp [hl] at hi
  | cons a r =>
    right
    refine ⟨a, rfl, ?_⟩
    rw [hl] at hi h3
    simp only [List.drop_succ_cons, List.drop_zero] at hi
    unfold Sorted at h3
    rw [List.pairwise_cons] at h3
    exact h3.1 i hi

/-- a late `remove` of an id that is not live (e.g. one that was evicted) changes nothing -/
theorem remove_absent (t : Tracker) (id : Nat) (h : id ∉ t.ids) : remove t id = t := by
  cases t with
  | mk m n ids =>
    simp only [remove, Tracker.mk.injEq, true_and]
    simp only at h
    apply List.filter_eq_self.mpr
    intro a ha
    simp
    intro e; subst e; exact h ha

/-- ids are never reused -/
theorem fresh_id (t : Tracker) (h : Inv t) : (add t).1 ∉ t.ids := by
  intro hm
  have := h.2.2.2 _ hm
  simp [add] at this

/-- non-vacuity -/
example : (run (new 2) [.add, .add, .add, .remove 1, .add, .remove 0]).ids = [2, 3] := by decide
example : (run (new 0) [.add, .add]).ids = [1] := by decide
example : Inv (run (new 2) [.add, .add, .add]) := by
  refine ⟨by decide, by decide, ?_, by decide⟩
  show List.Pairwise (· < ·) [1, 2]
  decide

end Rodbus.C15
