import RodbusModel.Model.Client
/-
  Line-protocol driver of the `cl` suite (see PROTOCOL.md):
  `cl <t|r> <dXYZ> q<cap> m<max timeouts> <script> [o<coins>]`
  The optional last token fixes the scheduler coins of `tokio::select!` (`1` = the branch written
  first is polled first, which is also the default).  No IO here.
-/
namespace Rodbus.Driver
open Rodbus.Client

def natOf (s : String) : Nat := s.toNat?.getD 0

def sdrop (s : String) (n : Nat) : String := String.ofList (s.toList.drop n)
def stake (s : String) (n : Nat) : String := String.ofList (s.toList.take n)

def parseDecode (tok : String) : Decode :=
  match (sdrop tok 1).toList.map (fun c => c.toNat - 48) with
  | [a, b, c] => ⟨a, b, c⟩
  | _ => ⟨0, 0, 0⟩

def genBits (spec : String) : List Bool :=
  if spec = "-" then []
  else if spec.startsWith "n" then
    match (sdrop spec 1).splitOn "s" with
    | [n, seed] => (List.range (natOf n)).map (fun i => (i * 7 + natOf seed) % 3 = 0)
    | _ => []
  else spec.toList.map (· == '1')

def genRegs (spec : String) : List Nat :=
  if spec = "-" then []
  else if spec.startsWith "n" then
    match (sdrop spec 1).splitOn "s" with
    | [n, seed] => (List.range (natOf n)).map (fun i => (i * 31 + natOf seed) % 65536)
    | _ => []
  else (spec.splitOn "/").map natOf

def parseReq (kind : String) (a b : String) : Option ClientReq :=
  match kind with
  | "rc" => some (.readCoils (natOf a % 65536) (natOf b % 65536))
  | "rd" => some (.readDiscreteInputs (natOf a % 65536) (natOf b % 65536))
  | "rh" => some (.readHoldingRegisters (natOf a % 65536) (natOf b % 65536))
  | "ri" => some (.readInputRegisters (natOf a % 65536) (natOf b % 65536))
  | "wc" => some (.writeSingleCoil (natOf a) (natOf b != 0))
  | "wr" => some (.writeSingleRegister (natOf a) (natOf b % 65536))
  | "wC" => some (.writeMultipleCoils (natOf a) (genBits b))
  | "wR" => some (.writeMultipleRegisters (natOf a) (genRegs b))
  | _ => none

/-- `<n>` milliseconds or `<n>s` seconds -/
def parseTimeout (s : String) : Nat :=
  if s.endsWith "s" then natOf (stake s (s.length - 1)) * 1000 else natOf s

def parseSubmit (op : SubmitOp) (rest : String) : Option Step :=
  match rest.splitOn "." with
  | [h, rid, kind, unit, timeout, a, b] =>
    (parseReq kind a b).map fun q =>
      .submit op (natOf h) ⟨rid, styleOf op, natOf unit, parseTimeout timeout, q⟩
  | _ => none

def parseStep (s : String) : Option Step :=
  let rest := sdrop s 1
  match stake s 1 with
  | "N" => some .newSession
  | "V" => some .waitEnabled
  | "F" => some (.failFor (natOf rest))
  | "E" => some (.enable (natOf rest))
  | "D" => some (.disable (natOf rest))
  | "S" => some (.shutdown (natOf rest))
  | "L" => some (.setDecode (parseDecode rest))
  | "H" => if rest = "+" then some .cloneHandle else some (.dropHandle (natOf (sdrop rest 1)))
  | "R" => parseSubmit .R rest
  | "C" => parseSubmit .C rest
  | "T" => parseSubmit .T rest
  | "Q" => parseSubmit .Q rest
  | "X" =>
    if rest = "e" then some (.rx .err)
    else if rest = "f" then some (.rx .eof)
    else (ofHex rest).map (fun b => .rx (.data b))
  | "W" => some .failWrite
  | "A" => some (.advance (natOf rest))
  | "K" => some .abort
  | _ => none

def parseScript (s : String) : Option (List Step) :=
  if s = "-" then some [] else (s.splitOn ",").mapM parseStep

/-! ### printing -/

def rangeErrStr : RangeErr → String
  | .countOfZero => "badreq.zero"
  | .addressOverflow => "badreq.overflow"
  | .countTooLargeForType => "badreq.toolarge"

def reqErrStr : ReqErr → String
  | .badRange e => rangeErrStr e
  | .countTooBigForU16 => "badreq.u16"
  | .countTooBigForType => "badreq.type"

def ioStr : IoKind → String
  | .eof => "io.eof" | .reset => "io.reset" | .pipe => "io.pipe"

def bfStr : BfKind → String
  | .proto => "bf.proto" | .toobig => "bf.toobig" | .lenzero => "bf.lenzero"
  | .unkfc => "bf.unkfc" | .crc => "bf.crc"

def valStr : RespVal → String
  | .bits [] => "b-"
  | .bits ((i, v) :: rest) =>
    s!"b{i}:" ++ String.join (((i, v) :: rest).map fun (_, x) => if x then "1" else "0")
  | .regs [] => "g-"
  | .regs ((i, v) :: rest) =>
    s!"g{i}:" ++ "/".intercalate (((i, v) :: rest).map fun (_, x) => toString x)
  | .coil i v => s!"c{i}:{if v then 1 else 0}"
  | .reg i v => s!"s{i}:{v}"
  | .range r => s!"r{r.start}+{r.count}"

def resStr : Res → String
  | .ok v => "ok." ++ valStr v
  | .exc c => s!"exc.{c}"
  | .badResp => "badresp"
  | .badReq e => reqErrStr e
  | .bf k => bfStr k
  | .io k => ioStr k
  | .internal => "internal"
  | .timeout => "timeout"
  | .noConn => "noconn"
  | .shutdown => "shutdown"

def endStr : EndKind → String
  | .io k => ioStr k
  | .badFrame => "badframe"
  | .disabled => "disabled"
  | .maxTo n => s!"maxto{n}"
  | .shutdown => "shutdown"
  | .enabled => "enabled"
  | .elapsed => "elapsed"

def subErrStr : SubErr → String
  | .noHandle => "nohandle"
  | .badReq e => reqErrStr e
  | .full => "full"
  | .closed => "closed"

def opStr : CmdOp → String
  | .E => "E" | .D => "D" | .S => "S" | .L => "L"

/-- class of an entry in the per-step sort of the harness -/
def entryClass : LogEntry → Nat
  | .sub .. | .cmdErr _ => 0
  | .done .. => 1
  | .tx _ => 2
  | .fin .. => 3

/-- Within one instant the callbacks have logged when the task blocks; the tasks awaiting a
    future log after it. -/
def doneKey : LogEntry → Nat × Nat
  | .done _ st _ t => (t, if st = .future then 1 else 0)
  | _ => (0, 0)

def insertBy {α : Type} (lt : α → α → Bool) (x : α) : List α → List α
  | [] => [x]
  | y :: ys => if lt y x then y :: insertBy lt x ys else x :: y :: ys

/-- stable insertion sort -/
def sortBy {α : Type} (lt : α → α → Bool) (xs : List α) : List α :=
  xs.foldr (insertBy lt) []

def groupOrder (g : List LogEntry) : List LogEntry :=
  let keyLt (a b : LogEntry) : Bool :=
    let (ca, cb) := (entryClass a, entryClass b)
    if ca ≠ cb then ca < cb
    else
      let (ka, kb) := (doneKey a, doneKey b)
      ka.1 < kb.1 || (ka.1 == kb.1 && ka.2 < kb.2)
  sortBy keyLt g

/-- print the groups; `seen` counts the completions per request id (`.dup<n>`) -/
def printEntry (seen : List Rid) : LogEntry → String × List Rid
  | .sub rid e => (s!"sub.{rid}.err.{subErrStr e}", seen)
  | .cmdErr op => (s!"cmd.{opStr op}.err", seen)
  | .done rid _ res t =>
    let n := seen.count rid + 1
    (s!"done.{rid}.{resStr res}.@{t}" ++ (if n > 1 then s!".dup{n}" else ""), rid :: seen)
  | .tx b => ("tx." ++ hexOrDash b, seen)
  | .fin k t => (s!"end.{endStr k}.@{t}", seen)

def printGroup (seen : List Rid) : List LogEntry → List String × List Rid
  | [] => ([], seen)
  | e :: es =>
    let (s, seen) := printEntry seen e
    let (ss, seen) := printGroup seen es
    (s :: ss, seen)

def printGroups (seen : List Rid) : List (List LogEntry) → List String
  | [] => []
  | g :: gs =>
    let (ss, seen) := printGroup seen (groupOrder g)
    (if ss.isEmpty then "-" else ";".intercalate ss) :: printGroups seen gs

/-- `m<max timeouts>[i<initial transaction id>]` (the initial id is a harness-only knob: it puts
    a run next to the 65535 -> 0 wrap without 65536 preceding requests) -/
def parseLimitTok (m : String) : Nat × Nat :=
  match (sdrop m 1).splitOn "i" with
  | [a, b] => (natOf a, natOf b % 65536)
  | [a] => (natOf a, 0)
  | _ => (0, 0)

def parseCoins (tok : String) : List Bool := (sdrop tok 1).toList.map (· == '1')

/-- result of a `cl` case under the given scheduler coins, together with the number of coins it
    consumed and the number of senders that had to wait for queue capacity -/
def runClWith (tok : List String) (coins : List Bool) : String × Nat × Nat :=
  match tok with
  | _ :: fr :: d :: q :: m :: script :: _ =>
    match parseScript script with
      | none => ("parse-error", 0, 0)
      | some steps =>
        -- coins are padded with the default so that consumption can be counted
        let padded := coins ++ List.replicate 64 true
        let (maxTo, tx0) := parseLimitTok m
        let (cap, dec) := (natOf (sdrop q 1), parseDecode d)
        let (alive, left, waited, groups) :=
          if fr = "t" then
            let (s, g) := run mbap { State.init mbap cap maxTo dec padded with tx := tx0 } steps
            (s.alive, s.coins.length, s.waited, g)
          else
            let (s, g) := run rtu { State.init rtu cap maxTo dec padded with tx := tx0 } steps
            (s.alive, s.coins.length, s.waited, g)
        let fin := if alive then "fin.alive" else "fin.aborted"
        (" | ".intercalate (printGroups [] (groups ++ [[]]) ++ [fin]), padded.length - left, waited)
  | _ => ("parse-error", 0, 0)

/-- the coins of the optional 7th token `o<bits>` -/
def runClInfo (tok : List String) : String × Nat × Nat :=
  runClWith tok (match tok.drop 6 with
    | c :: _ => parseCoins c
    | [] => [])

/-- tokens of a `cl` case line → canonical output line (default coins) -/
def runCl (tok : List String) : String := (runClInfo tok).1

/-- one-line description of a model state (for generators that steer scripts with the model) -/
def stateLine {σ : Type} (s : State σ) (used : Nat) (fmt : String) : String :=
  let b (x : Bool) : String := if x then "1" else "0"
  let (phase, pos, tx, rid, dl) : String × String × String × String × String :=
    match s.pos with
    | .noPhase => ("none", "none", "-", "-", "-")
    | .idle _ => ("session", "idle", "-", "-", "-")
    | .inflight _ r tx dl => ("session", "inflight", toString tx, r.rid, toString dl)
    | .waitEnabled => ("waitEnabled", "none", "-", "-", "-")
    | .failFor dl _ => ("failFor", "none", "-", "-", toString dl)
  s!"alive={b s.alive} phase={phase} pos={pos} tx={tx} rid={rid} deadline={dl} now={s.now} " ++
    s!"nexttx={s.tx} queue={s.queue.length} enabled={b s.enabled} nto={s.nto} " ++
    s!"handles={String.join (s.handles.map b)} coins={used} fmt={fmt}"

/-- `clq <t|r> <dXYZ> q<cap> m<max> <script> [o<coins>]` → the model state after the script -/
def runClState (tok : List String) : String :=
  match tok with
  | _ :: fr :: d :: q :: m :: script :: more =>
    match parseScript script with
      | none => "parse-error"
      | some steps =>
        let coins := match more with
          | c :: _ => parseCoins c
          | [] => []
        let padded := coins ++ List.replicate 64 true
        let (maxTo, tx0) := parseLimitTok m
        let (cap, dec) := (natOf (sdrop q 1), parseDecode d)
        if fr = "t" then
          let s := runState mbap { State.init mbap cap maxTo dec padded with tx := tx0 } steps
          stateLine s (padded.length - s.coins.length) "t"
        else
          let s := runState rtu { State.init rtu cap maxTo dec padded with tx := tx0 } steps
          stateLine s (padded.length - s.coins.length) "r"
  | _ => "parse-error"

/-- all coin lists of length `n`; the all-`true` (default) list first -/
def coinLists : Nat → List (List Bool)
  | 0 => [[]]
  | n + 1 => (coinLists n).flatMap fun l => [true :: l, false :: l]

def dedupAux (seen : List String) : List String → List String
  | [] => []
  | x :: xs => if seen.contains x then dedupAux seen xs else x :: dedupAux (x :: seen) xs

/-- first occurrences, in order -/
def dedup (xs : List String) : List String := dedupAux [] xs

/-- at most this many coins are enumerated -/
def coinCap : Nat := 8

def runClAllLoop (tok : List String) : Nat → Nat → List String
  | 0, _ => ["..."]
  | fuel + 1, len =>
    let rs := (coinLists len).map (runClWith tok)
    let used := rs.foldl (fun a r => max a r.2.1) 0
    let outs := dedup (rs.map (·.1))
    if used ≤ len then outs
    else if len = coinCap then outs ++ ["..."]
    else runClAllLoop tok fuel (min used coinCap)

/-- the outputs of a `cl` case over ALL assignments of the scheduler coins it can consume
    (de-duplicated, the default-coin output first); `"..."` is appended when some run wants more
    than `coinCap` coins -/
def runClAll (tok : List String) : List String := runClAllLoop tok (coinCap + 2) 0

end Rodbus.Driver
