import RodbusModel.Lemmas.ClientSettle
import RodbusModel.Props.C10
/-
  C10, liveness part: `drain_completes`.

  From EVERY reachable state of the client model in which the task exists (in a session with a
  request in flight and others queued, in `wait_for_enabled`, in `fail_requests_for`, between
  phases, with phases still scheduled, with the tasks not yet run to the end, …) a finite
  continuation of the script that needs no cooperation from the peer or the user completes every
  accepted request exactly as often as it was accepted.

  The continuation consists of two kinds of steps only:
    * `.advance n`  — the clock moves by `n` ms (`n` = the time left until the deadline of the
                      request in flight, whatever its timeout is; 1 ms inside the final rounds);
    * `.failFor 1`  — the outer task is handed one more `fail_requests_for(1 ms)` phase, which is
                      what the channel tasks of the library run on their own after a connection
                      has been lost or has ended.  Inside a running phase the step only lets the
                      tasks run on (the scheduled phase starts once the running one has ended).
  No delivery from the peer (`rx`), no submission, no command, no handle operation, no new session,
  no abort.

  Hypothesis on the framing: `Consuming F` (Lemmas/ClientSettle.lean) — the parser consumes or
  blocks: a frame strictly consumes buffered input or parser state, `Ok(None)` and a framing error
  do not produce any, the parser never reports the internal short-read error.  It is proved for
  `mbap` and `rtu` (`mbap_consuming`, `rtu_consuming`), so `drain_completes_mbap` and
  `drain_completes_rtu` have no hypothesis on the framing.  Without it the statement is false: a
  parser that returns a frame without consuming anything keeps the `select!` of an idle session
  busy with its reader branch for ever (with the default coin) and the queue is never looked at.

  Only property theorems and non-vacuity examples here.
-/
namespace Rodbus.Client

/-- `drain_completes`.  `s` is any state the model can reach (any framing whose parser consumes or
    blocks, queue capacity, timeout limit, decode level, any resolution `coins` of the `select!`
    polling order, any script `steps`) in which the task has not been aborted.  Then there is a
    finite list `more` of clock movements and `fail_requests_for(1 ms)` phases after which nothing
    is queued, nothing is in flight, nothing new has been accepted, and every request id has been
    completed exactly as often as it had been accepted in `s` (exactly once for a script with
    distinct ids, `never_completed_twice`). -/
theorem drain_completes {σ : Type} (F : Framing σ) (hF : Consuming F) (cap maxTo : Nat)
    (d : Decode) (coins : List Bool) (steps : List Step) (s : State σ)
    (hs : s = runState F (State.init F cap maxTo d coins) steps) (halive : s.alive = true) :
    ∃ more : List Step, (∀ st ∈ more, (∃ n, st = .advance n) ∨ st = .failFor 1) ∧
      ∀ s', s' = runState F (State.init F cap maxTo d coins) (steps ++ more) →
        queueIds s'.queue = [] ∧ inflightIds s'.pos = [] ∧ s'.accepted = s.accepted
          ∧ ∀ rid, (doneIds s'.log).count rid = s.accepted.count rid := by
  obtain ⟨more, hkind, hq, hp, hacc⟩ := drains_all F hF s halive
  refine ⟨more, hkind, ?_⟩
  intro s' hs'
  have hs'' : s' = runState F s more := by rw [hs', runState_append, ← hs]
  rw [← hs''] at hq hp hacc
  refine ⟨hq, hp, hacc, ?_⟩
  intro rid
  rw [← hacc]
  exact drained_exactly_once F cap maxTo d coins (steps ++ more) s' hs' rid hq hp

/-- `drain_completes` for Modbus TCP / TLS: no hypothesis on the framing -/
theorem drain_completes_mbap (cap maxTo : Nat) (d : Decode) (coins : List Bool)
    (steps : List Step) (s : State Mbap.PState)
    (hs : s = runState mbap (State.init mbap cap maxTo d coins) steps) (halive : s.alive = true) :
    ∃ more : List Step, (∀ st ∈ more, (∃ n, st = .advance n) ∨ st = .failFor 1) ∧
      ∀ s', s' = runState mbap (State.init mbap cap maxTo d coins) (steps ++ more) →
        queueIds s'.queue = [] ∧ inflightIds s'.pos = [] ∧ s'.accepted = s.accepted
          ∧ ∀ rid, (doneIds s'.log).count rid = s.accepted.count rid :=
  drain_completes mbap mbap_consuming cap maxTo d coins steps s hs halive

/-- `drain_completes` for Modbus RTU: no hypothesis on the framing -/
theorem drain_completes_rtu (cap maxTo : Nat) (d : Decode) (coins : List Bool)
    (steps : List Step) (s : State Rtu.PState)
    (hs : s = runState rtu (State.init rtu cap maxTo d coins) steps) (halive : s.alive = true) :
    ∃ more : List Step, (∀ st ∈ more, (∃ n, st = .advance n) ∨ st = .failFor 1) ∧
      ∀ s', s' = runState rtu (State.init rtu cap maxTo d coins) (steps ++ more) →
        queueIds s'.queue = [] ∧ inflightIds s'.pos = [] ∧ s'.accepted = s.accepted
          ∧ ∀ rid, (doneIds s'.log).count rid = s.accepted.count rid :=
  drain_completes rtu rtu_consuming cap maxTo d coins steps s hs halive

/-- With distinct request ids: after the continuation every accepted request has been completed
    exactly once. -/
theorem drain_completes_once {σ : Type} (F : Framing σ) (hF : Consuming F) (cap maxTo : Nat)
    (d : Decode) (coins : List Bool) (steps : List Step) (hnd : (scriptRids steps).Nodup)
    (s : State σ) (hs : s = runState F (State.init F cap maxTo d coins) steps)
    (halive : s.alive = true) :
    ∃ more : List Step, (∀ st ∈ more, (∃ n, st = .advance n) ∨ st = .failFor 1) ∧
      ∀ s', s' = runState F (State.init F cap maxTo d coins) (steps ++ more) →
        ∀ rid ∈ s.accepted, (doneIds s'.log).count rid = 1 := by
  obtain ⟨more, hkind, h⟩ := drain_completes F hF cap maxTo d coins steps s hs halive
  refine ⟨more, hkind, ?_⟩
  intro s' hs' rid hmem
  rw [(h s' hs').2.2.2 rid]
  have h1 := List.nodup_iff_count.mp (accepted_distinct F cap maxTo d coins steps hnd) rid
  rw [← hs] at h1
  have h2 : 0 < s.accepted.count rid := List.count_pos_iff.mpr hmem
  omega

/-! ### non-vacuity -/

namespace Example

/-- In the middle of a session (MBAP, no timeout limit): `a` is in flight with 250 ms left, `b`
    (timeout 0) and `c` (timeout 70000) are queued, the peer is silent.  The continuation the proof
    of `drain_completes` chooses for such a state — move the clock to the deadline of the request
    in flight, again and again — completes all three with `timeout`, in order. -/
example :
    let s := runState mbap s16
      [.newSession, .submit .R 0 (rc "a" .future 250), .submit .C 0 (rc "b" .callback 0),
       .submit .T 0 (rc "c" .trySend 70000)]
    (s.alive = true ∧ inflightIds s.pos = ["a"] ∧ queueIds s.queue = ["b", "c"]
        ∧ doneIds s.log = [])
      ∧ (let s' := runState mbap s [.advance 250, .advance 70000]
         queueIds s'.queue = [] ∧ inflightIds s'.pos = [] ∧ s'.accepted = s.accepted
           ∧ doneIds s'.log = ["c", "b", "a"]
           ∧ ∀ rid ∈ s.accepted, (doneIds s'.log).count rid = 1) := by decide

/-- The same with a timeout limit of 2 (the second timeout ends the session with two requests
    still queued) on RTU: the clock moves to the two deadlines, then rounds of
    `fail_requests_for(1 ms)` + 1 ms complete the rest with `noconn`. -/
example :
    let s := runState rtu (State.init rtu 16 2 ⟨0, 0, 0⟩ [])
      [.newSession, .submit .R 0 (rc "a" .future 10), .submit .C 0 (rc "b" .callback 20),
       .submit .R 0 (rc "c" .future 30), .submit .T 0 (rc "d" .trySend 40)]
    (s.alive = true ∧ inflightIds s.pos = ["a"] ∧ queueIds s.queue = ["b", "c", "d"])
      ∧ (let s' := runState rtu s [.advance 10, .advance 20, .failFor 1, .advance 1]
         queueIds s'.queue = [] ∧ inflightIds s'.pos = [] ∧ s'.accepted = s.accepted
           ∧ s'.log.filter LogEntry.isDone
              = [.done "d" .trySend .noConn 30, .done "c" .future .noConn 30,
                 .done "b" .callback .timeout 30, .done "a" .future .timeout 10]) := by decide

end Example

end Rodbus.Client
