//! Suite `ffi ctl`: the control functions and constructors of the C ABI that move no Modbus data
//! themselves: decode levels, enable / disable, serial and TLS constructors (error paths), device
//! map, transactions on unknown units, iterators, null objects.
use crate::cb::*;
use crate::e2e::{ffi_call, Args, Op, TmpClient, WAIT};
use crate::env::*;
use crate::reuse::{probe, read_text, tagged_reg, tcp_server};
use rodbus_ffi::ffi;
use std::ffi::CString;
use std::os::raw::{c_char, c_int, c_void};
use std::sync::atomic::{AtomicU32, Ordering};
use std::sync::{Arc, Mutex};
use std::time::Duration;

const CLIENT_DISABLED: c_int = 0;
const PORT_WAIT: c_int = 1;
const PORT_DISABLED: c_int = 0;

fn level(tok: &[&str], i: usize) -> Option<ffi::DecodeLevel> {
    let n = |k: usize| tok.get(k).and_then(|x| x.parse::<c_int>().ok());
    let (a, f, p) = (n(i)?, n(i + 1)?, n(i + 2)?);
    if !(0..=3).contains(&a) || !(0..=2).contains(&f) || !(0..=2).contains(&p) {
        return None;
    }
    Some(ffi::DecodeLevel { app: a, frame: f, physical: p })
}

/// ffi ctl cdecode <a> <f> <p> <world|tmp|null|dead>
fn run_cdecode(tok: &[&str]) -> Option<String> {
    let lvl = level(tok, 3)?;
    let w = world();
    Some(match *tok.get(6)? {
        "world" => {
            let rc = unsafe { ffi::rodbus_client_channel_set_decode_level(w.client.0, lvl) };
            let read = read_text(w.client.0, Op::Rc, 0, 8, UNIT_MAIN, 2000);
            unsafe { ffi::rodbus_client_channel_set_decode_level(w.client.0, decode_nothing()) };
            format!("rc={} read={}", param_error_name(rc), read)
        }
        // a channel that has never been enabled accepts the setting as well
        "tmp" => {
            let c = TmpClient::new(w.port, 4, false, false);
            let rc = unsafe { ffi::rodbus_client_channel_set_decode_level(c.ch, lvl) };
            let read = read_text(c.ch, Op::Rc, 0, 8, UNIT_MAIN, 2000);
            format!("rc={} read={}", param_error_name(rc), read)
        }
        "null" => {
            let rc = unsafe { ffi::rodbus_client_channel_set_decode_level(std::ptr::null_mut(), lvl) };
            format!("rc={} read=-", param_error_name(rc))
        }
        // the runtime (and with it the channel task) is gone
        "dead" => {
            let rt = create_runtime(1);
            let (ch, _states) = create_client(rt, w.port, 4, retry_ms(100, 100));
            unsafe { ffi::rodbus_runtime_destroy(rt) };
            let rc = unsafe { ffi::rodbus_client_channel_set_decode_level(ch, lvl) };
            let read = read_text(ch, Op::Rc, 0, 8, UNIT_MAIN, 2000);
            unsafe { ffi::rodbus_client_channel_destroy(ch) };
            format!("rc={} read={}", param_error_name(rc), read)
        }
        _ => return None,
    })
}

/// ffi ctl sdecode <a> <f> <p> <world|null|async>
fn run_sdecode(tok: &[&str]) -> Option<String> {
    let lvl = level(tok, 3)?;
    let w = world();
    Some(match *tok.get(6)? {
        "world" => {
            let rc = unsafe { ffi::rodbus_server_set_decode_level(w.server.0, lvl) };
            let read = read_text(w.client.0, Op::Rh, 0, 4, UNIT_MAIN, 2000);
            unsafe { ffi::rodbus_server_set_decode_level(w.server.0, decode_nothing()) };
            format!("rc={} read={}", param_error_name(rc), read)
        }
        "null" => {
            let rc = unsafe { ffi::rodbus_server_set_decode_level(std::ptr::null_mut(), lvl) };
            format!("rc={} read=-", param_error_name(rc))
        }
        // called from inside an asynchronous context: refused, the server keeps working
        "async" => {
            let server = w.server;
            let rc = hrt().block_on(async move {
                let server = server;
                unsafe { ffi::rodbus_server_set_decode_level(server.0, lvl) }
            });
            let read = read_text(w.client.0, Op::Rh, 0, 4, UNIT_MAIN, 2000);
            format!("rc={} read={}", param_error_name(rc), read)
        }
        _ => return None,
    })
}

/// ffi ctl endis <script | null>   e = enable, d = disable, r = read holding registers 0+4 of unit 1
fn run_endis(tok: &[&str]) -> Option<String> {
    let script = *tok.get(3)?;
    if script == "null" {
        let e = unsafe { ffi::rodbus_client_channel_enable(std::ptr::null_mut()) };
        let d = unsafe { ffi::rodbus_client_channel_disable(std::ptr::null_mut()) };
        return Some(format!("e:{},d:{}", param_error_name(e), param_error_name(d)));
    }
    if script.is_empty() || !script.chars().all(|c| "edr".contains(c)) {
        return None;
    }
    if script.len() > 32 {
        return None;
    }
    let w = world();
    // the queue is longer than the script: no command can meet a full queue
    let c = TmpClient::new(w.port, 64, false, false);
    let mut out = Vec::new();
    let mut enabled = false;
    for step in script.chars() {
        match step {
            'e' => {
                let rc = unsafe { ffi::rodbus_client_channel_enable(c.ch) };
                let ok = wait_state(&c.states, CLIENT_CONNECTED, Duration::from_secs(3));
                enabled = true;
                out.push(format!("e:{}{}", param_error_name(rc), if ok { "" } else { "!notconnected" }));
            }
            'd' => {
                let rc = unsafe { ffi::rodbus_client_channel_disable(c.ch) };
                // a channel that was never enabled announces nothing
                let ok = !enabled || wait_state(&c.states, CLIENT_DISABLED, Duration::from_secs(3));
                enabled = false;
                out.push(format!("d:{}{}", param_error_name(rc), if ok { "" } else { "!notdisabled" }));
            }
            _ => out.push(format!("r:{}", read_text(c.ch, Op::Rh, 0, 4, UNIT_MAIN, 2000))),
        }
    }
    Some(out.join(","))
}

// ---------------------------------------------------------------- serial constructors

fn missing_device() -> CString {
    CString::new(format!("/nonexistent-verif-{}/ttyV0", std::process::id())).unwrap()
}

fn serial_settings() -> ffi::SerialPortSettings {
    ffi::SerialPortSettings {
        baud_rate: 9600,
        data_bits: 3,
        flow_control: 0,
        parity: 0,
        stop_bits: 0,
    }
}

extern "C" fn port_change(state: c_int, ctx: *mut c_void) {
    unsafe {
        let s = &*(ctx as *const StateLog);
        s.states.lock().unwrap().push(state);
        s.cv.notify_all();
    }
}
extern "C" fn port_destroy(_ctx: *mut c_void) {}

fn port_listener() -> (States, ffi::PortStateListener) {
    let s: States = Arc::new(StateLog {
        states: Mutex::new(Vec::new()),
        cv: std::sync::Condvar::new(),
    });
    let l = ffi::PortStateListener {
        on_change: Some(port_change),
        on_destroy: Some(port_destroy),
        ctx: Arc::into_raw(s.clone()) as *mut c_void,
    };
    (s, l)
}

/// ffi ctl rtucli <missing|nullrt>
fn run_rtucli(tok: &[&str]) -> Option<String> {
    let w = world();
    let path = missing_device();
    let (states, listener) = port_listener();
    let mut ch: *mut rodbus_ffi::ClientChannel = std::ptr::null_mut();
    let rt = match *tok.get(3)? {
        "missing" => w.runtime.0,
        "nullrt" => std::ptr::null_mut(),
        _ => return None,
    };
    let rc = unsafe {
        ffi::rodbus_client_channel_create_rtu(rt, path.as_ptr(), serial_settings(), 4, retry_ms(100, 100), decode_nothing(), listener, &mut ch)
    };
    if rc != 0 || ch.is_null() {
        return Some(format!("rc={}", param_error_name(rc)));
    }
    // the Rust API on the same device
    let rust = {
        let p = path.to_str().unwrap().to_string();
        let r = hrt().block_on(async move {
            let ch = rodbus::client::spawn_rtu_client_task(
                &p,
                rodbus::SerialSettings::default(),
                4,
                rodbus::doubling_retry_strategy(Duration::from_millis(100), Duration::from_millis(100)),
                rodbus::DecodeLevel::nothing(),
                None,
            );
            ch.enable().await.unwrap();
            tokio::time::sleep(Duration::from_millis(30)).await;
            ch
        });
        crate::e2e::rust_call(&r, Op::Rh, &Args::Range(0, 4), 1, 500)
    };
    let en = unsafe { ffi::rodbus_client_channel_enable(ch) };
    let waited = wait_seen(&states, PORT_WAIT, Duration::from_secs(3));
    let (rq, cb) = ffi_call(ch, Op::Rh, &Args::Range(0, 4), param(1, 500), false);
    let st = wait_done(&cb, WAIT);
    let dl = unsafe {
        ffi::rodbus_client_channel_set_decode_level(ch, ffi::DecodeLevel { app: 3, frame: 2, physical: 2 })
    };
    let dis = unsafe { ffi::rodbus_client_channel_disable(ch) };
    let disabled = wait_state(&states, PORT_DISABLED, Duration::from_secs(3));
    unsafe { ffi::rodbus_client_channel_destroy(ch) };
    Some(format!(
        "rc={} en={} port={} req={},{} dl={} dis={} port={} rust={}",
        param_error_name(rc),
        param_error_name(en),
        if waited { "Wait" } else { "?" },
        param_error_name(rq),
        summary(&st),
        param_error_name(dl),
        param_error_name(dis),
        if disabled { "Disabled" } else { "?" },
        rust
    ))
}

struct Counter {
    calls: AtomicU32,
    destroyed: AtomicU32,
}

fn counter() -> &'static Counter {
    Box::leak(Box::new(Counter {
        calls: AtomicU32::new(0),
        destroyed: AtomicU32::new(0),
    }))
}

extern "C" fn count_tx(db: *mut rodbus_ffi::Database, ctx: *mut c_void) {
    let c = unsafe { &*(ctx as *const Counter) };
    c.calls.fetch_add(1, Ordering::SeqCst);
    let mut v = 0u16;
    unsafe { ffi::rodbus_database_get_input_register(db, 65535, &mut v) };
}
extern "C" fn count_destroy(ctx: *mut c_void) {
    let c = unsafe { &*(ctx as *const Counter) };
    c.destroyed.fetch_add(1, Ordering::SeqCst);
}

fn counting_tx(c: &'static Counter) -> ffi::DatabaseCallback {
    ffi::DatabaseCallback {
        callback: Some(count_tx),
        on_destroy: Some(count_destroy),
        ctx: c as *const Counter as *mut c_void,
    }
}

/// ffi ctl rtusrv <missing|nullrt|nullmap>
fn run_rtusrv(tok: &[&str]) -> Option<String> {
    let w = world();
    let path = missing_device();
    let what = *tok.get(3)?;
    unsafe {
        let map = ffi::rodbus_device_map_create();
        crate::reuse::add_tagged_endpoint(map, 1, 0);
        let (rt, m) = match what {
            "missing" => (w.runtime.0, map),
            "nullrt" => (std::ptr::null_mut(), map),
            "nullmap" => (w.runtime.0, std::ptr::null_mut()),
            _ => {
                ffi::rodbus_device_map_destroy(map);
                return None;
            }
        };
        let mut server: *mut rodbus_ffi::Server = std::ptr::null_mut();
        let rc = ffi::rodbus_server_create_rtu(rt, path.as_ptr(), serial_settings(), retry_ms(100, 100), m, decode_nothing(), &mut server);
        ffi::rodbus_device_map_destroy(map);
        if rc != 0 || server.is_null() {
            return Some(format!("rc={}", param_error_name(rc)));
        }
        // the Rust API on the same device
        let p = path.to_str().unwrap().to_string();
        let rust = hrt().block_on(async move {
            let r = rodbus::server::spawn_rtu_server_task(
                &p,
                rodbus::SerialSettings::default(),
                rodbus::doubling_retry_strategy(Duration::from_millis(100), Duration::from_millis(100)),
                rodbus::server::ServerHandlerMap::<NoHandler>::new(),
                rodbus::DecodeLevel::nothing(),
            );
            match r {
                Ok(_) => "ok",
                Err(_) => "err",
            }
        });
        let c1 = counter();
        let tx = ffi::rodbus_server_update_database(server, 1, counting_tx(c1));
        let c2 = counter();
        let bad = ffi::rodbus_server_update_database(server, 9, counting_tx(c2));
        let dl = ffi::rodbus_server_set_decode_level(server, ffi::DecodeLevel { app: 3, frame: 2, physical: 2 });
        ffi::rodbus_server_destroy(server);
        Some(format!(
            "rc={} tx={},{} bad={},{} dl={} rust={}",
            param_error_name(rc),
            param_error_name(tx),
            c1.calls.load(Ordering::SeqCst),
            param_error_name(bad),
            c2.calls.load(Ordering::SeqCst),
            param_error_name(dl),
            rust
        ))
    }
}

struct NoHandler;
impl rodbus::server::RequestHandler for NoHandler {}

// ---------------------------------------------------------------- TLS constructors

fn certs_dir() -> String {
    std::env::var("VERIF_CERTS").unwrap_or_else(|_| "/repo/certs".into())
}

struct TlsFiles {
    peer: Vec<u8>,
    local: Vec<u8>,
    key: Vec<u8>,
    dns: Vec<u8>,
    mode: c_int, // 0 = AuthorityBased, 1 = SelfSigned
    wildcard: bool,
}

/// the files of a scenario, as the local end `role` ("client" / "server") needs them
fn tls_files(scenario: &str, role: &str) -> Option<TlsFiles> {
    let d = certs_dir();
    let missing = format!("/nonexistent-verif-{}/x.pem", std::process::id()).into_bytes();
    let ss = |n: &str| format!("{d}/self_signed/{n}").into_bytes();
    let ca = |n: &str| format!("{d}/ca_chain/{n}").into_bytes();
    let mut f = TlsFiles {
        peer: ss("entity1_cert.pem"),
        local: ss("entity2_cert.pem"),
        key: ss("entity2_key.pem"),
        dns: b"test.com".to_vec(),
        mode: 1,
        wildcard: false,
    };
    let authority = |f: &mut TlsFiles| {
        f.mode = 0;
        f.peer = ca("ca_cert.pem");
        f.local = ca(&format!("{role}_cert.pem"));
        f.key = ca(&format!("{role}_key.pem"));
    };
    match scenario {
        "ok" => {}
        "nopeer" => f.peer = missing,
        "nolocal" => f.local = missing,
        "nokey" => f.key = missing,
        // a certificate where a key is expected, and the other way round
        "keyiscert" => f.key = ss("entity2_cert.pem"),
        "peeriskey" => f.peer = ss("entity1_key.pem"),
        "ca" => authority(&mut f),
        "canopeer" => {
            authority(&mut f);
            f.peer = missing;
        }
        "baddns" => {
            authority(&mut f);
            f.dns = b"not a dns name!".to_vec();
        }
        "wilddns" => {
            authority(&mut f);
            f.dns = b"*".to_vec();
            f.wildcard = true;
        }
        // `*` without the permission to skip name verification is an (invalid) name
        "stardns" => {
            authority(&mut f);
            f.dns = b"*".to_vec();
        }
        "utf8peer" => f.peer = vec![0x2f, 0xff, 0xfe],
        "utf8dns" => {
            authority(&mut f);
            f.dns = vec![0xff, 0xfe];
        }
        _ => return None,
    }
    Some(f)
}

fn tls_error_name(e: &rodbus::client::TlsError) -> &'static str {
    use rodbus::client::TlsError::*;
    match e {
        InvalidPeerCertificate(_) => "InvalidPeerCertificate",
        InvalidLocalCertificate(_) => "InvalidLocalCertificate",
        InvalidPrivateKey(_) => "InvalidPrivateKey",
        InvalidDnsName => "InvalidDnsName",
        BadConfig(_) => "BadConfig",
    }
}

fn utf8(b: &[u8]) -> Option<&str> {
    std::str::from_utf8(b).ok()
}

/// ffi ctl tlscli <scenario|nullrt>
fn run_tlscli(tok: &[&str]) -> Option<String> {
    let scen = *tok.get(3)?;
    let w = world();
    let f = tls_files(if scen == "nullrt" { "ok" } else { scen }, "client")?;
    // the Rust API with the same inputs
    let rust = match (utf8(&f.peer), utf8(&f.local), utf8(&f.key), utf8(&f.dns)) {
        (Some(peer), Some(local), Some(key), dns) => {
            use std::path::Path;
            let r = if f.mode == 1 {
                rodbus::client::TlsClientConfig::self_signed(
                    Path::new(peer),
                    Path::new(local),
                    Path::new(key),
                    None,
                    rodbus::client::MinTlsVersion::V1_2,
                )
            } else {
                match dns {
                    None => Err(rodbus::client::TlsError::InvalidDnsName),
                    Some(dns) => rodbus::client::TlsClientConfig::full_pki(
                        if f.wildcard && dns == "*" { None } else { Some(dns.to_string()) },
                        Path::new(peer),
                        Path::new(local),
                        Path::new(key),
                        None,
                        rodbus::client::MinTlsVersion::V1_2,
                    ),
                }
            };
            match (&r, dns) {
                (_, None) => "Utf8Error".to_string(),
                (Ok(_), _) => "ok".to_string(),
                (Err(e), _) => tls_error_name(e).to_string(),
            }
        }
        _ => "Utf8Error".to_string(),
    };
    let c = |b: &Vec<u8>| CString::new(b.clone()).unwrap();
    let (dns, peer, local, key, password, host) = (c(&f.dns), c(&f.peer), c(&f.local), c(&f.key), CString::new("").unwrap(), CString::new("127.0.0.1").unwrap());
    let cfg = ffi::TlsClientConfig {
        dns_name: dns.as_ptr(),
        peer_cert_path: peer.as_ptr(),
        local_cert_path: local.as_ptr(),
        private_key_path: key.as_ptr(),
        password: password.as_ptr(),
        min_tls_version: 0,
        certificate_mode: f.mode,
        allow_server_name_wildcard: f.wildcard,
    };
    let (_states, listener) = state_listener();
    let mut ch: *mut rodbus_ffi::ClientChannel = std::ptr::null_mut();
    let rt = if scen == "nullrt" { std::ptr::null_mut() } else { w.runtime.0 };
    let rc = unsafe {
        ffi::rodbus_client_channel_create_tls(rt, host.as_ptr(), free_port(), 4, retry_ms(100, 100), cfg, decode_nothing(), listener, &mut ch)
    };
    let made = !ch.is_null();
    if made {
        unsafe { ffi::rodbus_client_channel_destroy(ch) };
    }
    Some(format!(
        "rc={} ch={} rust={}",
        param_error_name(rc),
        made as u8,
        if scen == "nullrt" { "-".to_string() } else { rust }
    ))
}

/// ffi ctl tlssrv <tls|tlsauth> <scenario|nullrt|nullfilter|nullmap|badip>
fn run_tlssrv(tok: &[&str]) -> Option<String> {
    let variant = *tok.get(3)?;
    let scen = *tok.get(4)?;
    let w = world();
    let structural = ["nullrt", "nullfilter", "nullmap", "badip"].contains(&scen);
    let f = tls_files(if structural { "ok" } else { scen }, "server")?;
    if ["baddns", "wilddns", "stardns", "utf8dns"].contains(&scen) {
        return None; // a server has no expected name
    }
    // the Rust API with the same inputs (the C ABI converts the paths lossily)
    let lossy = |b: &Vec<u8>| String::from_utf8_lossy(b).to_string();
    let rust = {
        use std::path::Path;
        let r = rodbus::server::TlsServerConfig::new(
            Path::new(&lossy(&f.peer)),
            Path::new(&lossy(&f.local)),
            Path::new(&lossy(&f.key)),
            None,
            rodbus::server::MinTlsVersion::V1_2,
            if f.mode == 1 {
                rodbus::server::CertificateMode::SelfSigned
            } else {
                rodbus::server::CertificateMode::AuthorityBased
            },
        );
        match &r {
            Ok(_) => "ok".to_string(),
            Err(e) => tls_error_name(e).to_string(),
        }
    };
    let c = |b: &Vec<u8>| CString::new(b.clone()).unwrap();
    let (peer, local, key, password) = (c(&f.peer), c(&f.local), c(&f.key), CString::new("").unwrap());
    let addr = CString::new(if scen == "badip" { "not-an-ip" } else { "127.0.0.1" }).unwrap();
    unsafe {
        let filter = ffi::rodbus_address_filter_any();
        let map = ffi::rodbus_device_map_create();
        crate::reuse::add_tagged_endpoint(map, 1, 0);
        let mut server: *mut rodbus_ffi::Server = std::ptr::null_mut();
        let mut rc = -1;
        let mut port = 0;
        for _ in 0..10 {
            port = free_port();
            let cfg = ffi::TlsServerConfig {
                peer_cert_path: peer.as_ptr(),
                local_cert_path: local.as_ptr(),
                private_key_path: key.as_ptr(),
                password: password.as_ptr(),
                min_tls_version: 0,
                certificate_mode: f.mode,
            };
            let rt = if scen == "nullrt" { std::ptr::null_mut() } else { w.runtime.0 };
            let fl = if scen == "nullfilter" { std::ptr::null_mut() } else { filter };
            let mp = if scen == "nullmap" { std::ptr::null_mut() } else { map };
            rc = match variant {
                "tls" => ffi::rodbus_server_create_tls(rt, addr.as_ptr(), port, fl, 10, mp, cfg, decode_nothing(), &mut server),
                "tlsauth" => ffi::rodbus_server_create_tls_with_authz(rt, addr.as_ptr(), port, fl, 10, mp, cfg, deny_all(), decode_nothing(), &mut server),
                _ => {
                    ffi::rodbus_device_map_destroy(map);
                    ffi::rodbus_address_filter_destroy(filter);
                    return None;
                }
            };
            if rc != 11 {
                break;
            }
        }
        // a constructor that failed before it took the endpoints leaves the caller's map intact:
        // a plain TCP server built from the same map afterwards serves unit 1
        let after = if rc != 0 && scen != "nullmap" {
            match tcp_server(filter, map) {
                Ok((s, p)) => {
                    let r = probe(p, std::net::Ipv4Addr::new(127, 0, 0, 1), 1);
                    ffi::rodbus_server_destroy(s);
                    if r == format!("served.{}", tagged_reg(0, 0)) {
                        "served".to_string()
                    } else {
                        r
                    }
                }
                Err(e) => format!("create-error.{}", param_error_name(e)),
            }
        } else {
            "-".to_string()
        };
        let _ = port;
        ffi::rodbus_device_map_destroy(map);
        ffi::rodbus_address_filter_destroy(filter);
        let made = !server.is_null();
        if made {
            ffi::rodbus_server_destroy(server);
        }
        Some(format!(
            "rc={} srv={} map={} rust={}",
            param_error_name(rc),
            made as u8,
            after,
            if structural { "-".to_string() } else { rust }
        ))
    }
}

extern "C" fn deny_range(_u: u8, _r: ffi::AddressRange, _role: *const c_char, _ctx: *mut c_void) -> c_int {
    1
}
extern "C" fn deny_index(_u: u8, _i: u16, _role: *const c_char, _ctx: *mut c_void) -> c_int {
    1
}
extern "C" fn nop(_ctx: *mut c_void) {}

fn deny_all() -> ffi::AuthorizationHandler {
    ffi::AuthorizationHandler {
        read_coils: Some(deny_range),
        read_discrete_inputs: Some(deny_range),
        read_holding_registers: Some(deny_range),
        read_input_registers: Some(deny_range),
        write_single_coil: Some(deny_index),
        write_single_register: Some(deny_index),
        write_multiple_coils: Some(deny_range),
        write_multiple_registers: Some(deny_range),
        on_destroy: Some(nop),
        ctx: std::ptr::null_mut(),
    }
}

/// ffi ctl tcpsrv <nullrt|nullfilter|nullmap|badip|inuse|ok>
fn run_tcpsrv(tok: &[&str]) -> Option<String> {
    let scen = *tok.get(3)?;
    let w = world();
    if !["nullrt", "nullfilter", "nullmap", "badip", "inuse", "ok"].contains(&scen) {
        return None;
    }
    unsafe {
        let filter = ffi::rodbus_address_filter_any();
        let map = ffi::rodbus_device_map_create();
        crate::reuse::add_tagged_endpoint(map, 1, 0);
        let addr = CString::new(if scen == "badip" { "not-an-ip" } else { "127.0.0.1" }).unwrap();
        let rt = if scen == "nullrt" { std::ptr::null_mut() } else { w.runtime.0 };
        let fl = if scen == "nullfilter" { std::ptr::null_mut() } else { filter };
        let mp = if scen == "nullmap" { std::ptr::null_mut() } else { map };
        let mut server: *mut rodbus_ffi::Server = std::ptr::null_mut();
        let mut rc = -1;
        for _ in 0..10 {
            // `inuse`: the port of the world's server
            let port = if scen == "inuse" { w.port } else { free_port() };
            rc = ffi::rodbus_server_create_tcp(rt, addr.as_ptr(), port, fl, 10, mp, decode_nothing(), &mut server);
            if rc != 11 || scen == "inuse" {
                break;
            }
        }
        ffi::rodbus_device_map_destroy(map);
        ffi::rodbus_address_filter_destroy(filter);
        let made = !server.is_null();
        if made {
            ffi::rodbus_server_destroy(server);
        }
        // the world's server is unharmed
        let read = read_text(w.client.0, Op::Rh, 0, 4, UNIT_MAIN, 2000);
        Some(format!("rc={} srv={} world={}", param_error_name(rc), made as u8, read))
    }
}

// ---------------------------------------------------------------- device map

/// ffi ctl mapdup <unit a> <unit b> | ffi ctl mapdup null
/// two registrations (tags 1 and 2); a unit id that is taken is refused and the refused
/// registration's configuration callback never runs
fn run_mapdup(tok: &[&str]) -> Option<String> {
    world();
    if *tok.get(3)? == "null" {
        let calls = Arc::new(AtomicU32::new(0));
        let c2 = calls.clone();
        let ok = unsafe {
            ffi::rodbus_device_map_add_endpoint(
                std::ptr::null_mut(),
                1,
                full_write_handler(),
                database_callback(move |_| {
                    c2.fetch_add(1, Ordering::SeqCst);
                }),
            )
        };
        return Some(format!("add={} cfg={}", ok as u8, calls.load(Ordering::SeqCst)));
    }
    let ua: u8 = tok.get(3)?.parse().ok()?;
    let ub: u8 = tok.get(4)?.parse().ok()?;
    unsafe {
        let map = ffi::rodbus_device_map_create();
        let calls = [Arc::new(AtomicU32::new(0)), Arc::new(AtomicU32::new(0))];
        let mut adds = Vec::new();
        for (k, u) in [ua, ub].iter().enumerate() {
            let c = calls[k].clone();
            let tag = k as u16 + 1;
            adds.push(ffi::rodbus_device_map_add_endpoint(
                map,
                *u,
                full_write_handler(),
                database_callback(move |db| {
                    c.fetch_add(1, Ordering::SeqCst);
                    for i in 0..10 {
                        ffi::rodbus_database_add_holding_register(db, i, tagged_reg(tag, i));
                    }
                }),
            ));
        }
        let filter = ffi::rodbus_address_filter_any();
        let s = tcp_server(filter, map);
        ffi::rodbus_device_map_destroy(map);
        ffi::rodbus_address_filter_destroy(filter);
        let src = std::net::Ipv4Addr::new(127, 0, 0, 1);
        let (ra, rb) = match &s {
            Ok((_, port)) => (probe(*port, src, ua), probe(*port, src, ub)),
            Err(rc) => {
                let e = format!("create-error.{}", param_error_name(*rc));
                (e.clone(), e)
            }
        };
        if let Ok((s, _)) = s {
            ffi::rodbus_server_destroy(s);
        }
        Some(format!(
            "add={},{} cfg={},{} a={} b={}",
            adds[0] as u8,
            adds[1] as u8,
            calls[0].load(Ordering::SeqCst),
            calls[1].load(Ordering::SeqCst),
            ra,
            rb
        ))
    }
}

/// ffi ctl txunit <unit|null>   one transaction on the world's server
fn run_txunit(tok: &[&str]) -> Option<String> {
    let w = world();
    let (server, unit): (*mut rodbus_ffi::Server, u8) = match *tok.get(3)? {
        "null" => (std::ptr::null_mut(), 1),
        u => (w.server.0, u.parse().ok()?),
    };
    let c = counter();
    let rc = unsafe { ffi::rodbus_server_update_database(server, unit, counting_tx(c)) };
    Some(format!(
        "rc={} calls={} destroyed={}",
        param_error_name(rc),
        c.calls.load(Ordering::SeqCst),
        c.destroyed.load(Ordering::SeqCst)
    ))
}

// ---------------------------------------------------------------- iterators

struct IterCtx {
    take: u32,
    log: Mutex<Vec<String>>,
    done: Mutex<u32>,
    cv: std::sync::Condvar,
}

extern "C" fn iter_bits<'a>(it: *mut rodbus_ffi::BitValueIterator<'a>, ctx: *mut c_void) {
    let c = unsafe { &*(ctx as *const IterCtx) };
    let mut log = c.log.lock().unwrap();
    for _ in 0..c.take {
        let p = unsafe { ffi::rodbus_bit_value_iterator_next(it) };
        log.push(if p.is_null() {
            "null".into()
        } else {
            unsafe { format!("{}:{}", (*p).index, (*p).value as u8) }
        });
    }
    let p = unsafe { ffi::rodbus_bit_value_iterator_next(std::ptr::null_mut()) };
    log.push(if p.is_null() { "nullit=null".into() } else { "nullit=item".into() });
}

extern "C" fn iter_regs<'a>(it: *mut rodbus_ffi::RegisterValueIterator<'a>, ctx: *mut c_void) {
    let c = unsafe { &*(ctx as *const IterCtx) };
    let mut log = c.log.lock().unwrap();
    for _ in 0..c.take {
        let p = unsafe { ffi::rodbus_register_value_iterator_next(it) };
        log.push(if p.is_null() {
            "null".into()
        } else {
            unsafe { format!("{}:{}", (*p).index, (*p).value) }
        });
    }
    let p = unsafe { ffi::rodbus_register_value_iterator_next(std::ptr::null_mut()) };
    log.push(if p.is_null() { "nullit=null".into() } else { "nullit=item".into() });
}

extern "C" fn iter_failure(error: c_int, ctx: *mut c_void) {
    let c = unsafe { &*(ctx as *const IterCtx) };
    c.log.lock().unwrap().push(request_error_name(error));
}

extern "C" fn iter_destroy(ctx: *mut c_void) {
    let c = unsafe { &*(ctx as *const IterCtx) };
    *c.done.lock().unwrap() += 1;
    c.cv.notify_all();
}

/// ffi ctl iter <rc|rd|rh|ri> <start> <count> <take>
/// the completion callback calls `next` exactly `take` times (fewer or more than there are items)
/// and once on a null iterator; afterwards the channel serves an ordinary read
fn run_iter(tok: &[&str]) -> Option<String> {
    let op = Op::parse(tok.get(3)?)?;
    if !op.is_read() {
        return None;
    }
    let start: u16 = tok.get(4)?.parse().ok()?;
    let count: u16 = tok.get(5)?.parse().ok()?;
    let take: u32 = tok.get(6)?.parse().ok()?;
    if take > 3000 {
        return None;
    }
    let w = world();
    let ctx: &'static IterCtx = Box::leak(Box::new(IterCtx {
        take,
        log: Mutex::new(Vec::new()),
        done: Mutex::new(0),
        cv: std::sync::Condvar::new(),
    }));
    let p = ctx as *const IterCtx as *mut c_void;
    let range = ffi::AddressRange { start, count };
    let rc = unsafe {
        match op {
            Op::Rc | Op::Rd => {
                let cb = ffi::BitReadCallback {
                    on_complete: Some(iter_bits),
                    on_failure: Some(iter_failure),
                    on_destroy: Some(iter_destroy),
                    ctx: p,
                };
                if op == Op::Rc {
                    ffi::rodbus_client_channel_read_coils(w.client.0, param(UNIT_MAIN, 2000), range, cb)
                } else {
                    ffi::rodbus_client_channel_read_discrete_inputs(w.client.0, param(UNIT_MAIN, 2000), range, cb)
                }
            }
            _ => {
                let cb = ffi::RegisterReadCallback {
                    on_complete: Some(iter_regs),
                    on_failure: Some(iter_failure),
                    on_destroy: Some(iter_destroy),
                    ctx: p,
                };
                if op == Op::Rh {
                    ffi::rodbus_client_channel_read_holding_registers(w.client.0, param(UNIT_MAIN, 2000), range, cb)
                } else {
                    ffi::rodbus_client_channel_read_input_registers(w.client.0, param(UNIT_MAIN, 2000), range, cb)
                }
            }
        }
    };
    {
        let deadline = std::time::Instant::now() + WAIT;
        let mut d = ctx.done.lock().unwrap();
        while *d == 0 {
            let now = std::time::Instant::now();
            if now >= deadline {
                break;
            }
            d = ctx.cv.wait_timeout(d, deadline - now).unwrap().0;
        }
    }
    let log = ctx.log.lock().unwrap().join(",");
    let next = read_text(w.client.0, op, 0, 2, UNIT_MAIN, 2000);
    Some(format!("rc={} items={} next={}", param_error_name(rc), if log.is_empty() { "-".into() } else { log }, next))
}

/// ffi ctl nullobj   every function that takes an object pointer, on a null pointer
fn run_nullobj() -> String {
    unsafe {
        let n: *mut rodbus_ffi::Database = std::ptr::null_mut();
        let b = |x: bool| if x { '1' } else { '0' };
        let add: String = [
            ffi::rodbus_database_add_coil(n, 1, true),
            ffi::rodbus_database_add_discrete_input(n, 1, true),
            ffi::rodbus_database_add_holding_register(n, 1, 1),
            ffi::rodbus_database_add_input_register(n, 1, 1),
        ]
        .iter()
        .map(|x| b(*x))
        .collect();
        let upd: String = [
            ffi::rodbus_database_update_coil(n, 1, true),
            ffi::rodbus_database_update_discrete_input(n, 1, true),
            ffi::rodbus_database_update_holding_register(n, 1, 1),
            ffi::rodbus_database_update_input_register(n, 1, 1),
        ]
        .iter()
        .map(|x| b(*x))
        .collect();
        let del: String = [
            ffi::rodbus_database_delete_coil(n, 1),
            ffi::rodbus_database_delete_discrete_input(n, 1),
            ffi::rodbus_database_delete_holding_register(n, 1),
            ffi::rodbus_database_delete_input_register(n, 1),
        ]
        .iter()
        .map(|x| b(*x))
        .collect();
        let mut vb = false;
        let mut vr = 0u16;
        let get = [
            ffi::rodbus_database_get_coil(n, 1, &mut vb),
            ffi::rodbus_database_get_discrete_input(n, 1, &mut vb),
            ffi::rodbus_database_get_holding_register(n, 1, &mut vr),
            ffi::rodbus_database_get_input_register(n, 1, &mut vr),
        ]
        .iter()
        .map(|x| param_error_name(*x))
        .collect::<Vec<_>>()
        .join(",");
        // these must simply do nothing
        ffi::rodbus_bit_list_add(std::ptr::null_mut(), true);
        ffi::rodbus_register_list_add(std::ptr::null_mut(), 1);
        ffi::rodbus_bit_list_destroy(std::ptr::null_mut());
        ffi::rodbus_register_list_destroy(std::ptr::null_mut());
        ffi::rodbus_device_map_destroy(std::ptr::null_mut());
        ffi::rodbus_address_filter_destroy(std::ptr::null_mut());
        ffi::rodbus_client_channel_destroy(std::ptr::null_mut());
        ffi::rodbus_server_destroy(std::ptr::null_mut());
        ffi::rodbus_runtime_destroy(std::ptr::null_mut());
        let addr = CString::new("127.0.0.1").unwrap();
        let fadd = ffi::rodbus_address_filter_add(std::ptr::null_mut(), addr.as_ptr());
        format!("add={add} upd={upd} del={del} get={get} fltadd={}", param_error_name(fadd))
    }
}

pub fn run_ctl(tok: &[&str]) -> String {
    let r = match tok.get(2).copied() {
        Some("cdecode") => run_cdecode(tok),
        Some("sdecode") => run_sdecode(tok),
        Some("endis") => run_endis(tok),
        Some("rtucli") => run_rtucli(tok),
        Some("rtusrv") => run_rtusrv(tok),
        Some("tlscli") => run_tlscli(tok),
        Some("tlssrv") => run_tlssrv(tok),
        Some("tcpsrv") => run_tcpsrv(tok),
        Some("mapdup") => run_mapdup(tok),
        Some("txunit") => run_txunit(tok),
        Some("iter") => run_iter(tok),
        Some("nullobj") => Some(run_nullobj()),
        _ => None,
    };
    r.unwrap_or_else(|| "bad-case".into())
}
